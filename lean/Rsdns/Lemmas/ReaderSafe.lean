/-
  Rsdns.Lemmas.ReaderSafe — panic-freedom of `MessageReader` along protocol-conforming call histories,
  for EVERY byte string.

  `Base`   : the cursor view is inside the message (`RInv`) and the section counters are sane (`CSane`).
  `MarkerAt`: what a successful record-header call establishes about the marker it returns (the cursor
             stands at its RDATA, its section has records left).
  `ROut x Q E`: the call returned a value (then `Q`) or an error (then `E`) — never a panic, never UB.
  Each public call is given an `ROut` lemma from `Base` (+ `MarkerAt` for the data calls); `step_sane`
  assembles them for the step function and `run_sane` lifts to histories of any length.
  The protocol needed (`Permitted`) is weaker than the documented one (`C09.Allowed`).
-/
import Rsdns.Lemmas.History
import Rsdns.Lemmas.PassDecode
import Rsdns.Lemmas.ErrKind
import Rsdns.Lemmas.Counters
import Rsdns.Props.C02
set_option linter.unusedVariables false
namespace Rsdns
open Generated Spec

/-! ### cursor level -/

/-- a cursor computation none of whose errors is `RecordsSectionOffsetUnknown` -/
def CurM.Nou {α : Type} (f : CurM α) : Prop := ∀ c, Res.nou (f c).1

theorem CurM.Nou.pure {α} (a : α) : CurM.Nou (Pure.pure a : CurM α) := fun c => trivial

theorem CurM.Nou.bind {α β} {x : CurM α} {f : α → CurM β} (hx : CurM.Nou x) (hf : ∀ a, CurM.Nou (f a)) :
    CurM.Nou (x >>= f) := by
  intro c
  show Res.nou (CurM.bind x f c).1
  unfold CurM.bind
  have h1 := hx c
  cases hxc : x c with
  | mk r c' =>
    rw [hxc] at h1
    cases r with
    | ok a => exact hf a c'
    | err e => exact h1
    | panic p => trivial
    | ub => trivial

theorem CurM.Nou.lift {α} {f : Cur → Res (α × Cur)} (h : ∀ c, Res.nou (f c)) : CurM.Nou (CurM.lift f) := by
  intro c
  unfold CurM.lift
  have := h c
  cases hf : f c with
  | ok v => trivial
  | err e => rw [hf] at this; exact this
  | panic p => trivial
  | ub => trivial

theorem CurM.Nou.lift0 {f : Cur → Res Cur} (h : ∀ c, Res.nou (f c)) : CurM.Nou (CurM.lift0 f) := by
  intro c
  unfold CurM.lift0
  have := h c
  cases hf : f c with
  | ok v => trivial
  | err e => rw [hf] at this; exact this
  | panic p => trivial
  | ub => trivial

theorem CurM.Nou.u16be (msg : Bytes) : CurM.Nou (CurM.u16be msg) := CurM.Nou.lift (fun c => rBe_nou msg c 2)
theorem CurM.Nou.u32be (msg : Bytes) : CurM.Nou (CurM.u32be msg) := CurM.Nou.lift (fun c => rBe_nou msg c 4)
theorem CurM.Nou.skip (n : Nat) : CurM.Nou (CurM.skip n) := CurM.Nou.lift0 (fun c => skip_nou c n)
theorem CurM.Nou.skipName (msg : Bytes) : CurM.Nou (CurM.skipName msg) := CurM.Nou.lift (fun c => skipName_nou msg c)

theorem readName_nou (k : NameKind) (msg : Bytes) (c : Cur) : Res.nou (readName k msg c) := by
  unfold readName
  have := walk_nou msg (.read k) ⟨c, 0, 0⟩ #[] [] 0
  split
  · rename_i e hw; rw [hw] at this; simpa using this
  · simp
  · simp
  · simp

theorem CurM.Nou.readName (k : NameKind) (msg : Bytes) : CurM.Nou (CurM.readName k msg) :=
  CurM.Nou.lift (fun c => readName_nou k msg c)

/-- never panics, never UB, never `RecordsSectionOffsetUnknown`; keeps the cursor well-formed over the
    same full view -/
def CurM.Solid {α : Type} (msg : Bytes) (f : CurM α) : Prop :=
  ∀ c, Cur.OK msg c → (f c).1.safe ∧ Res.nou (f c).1 ∧ Cur.OK msg (f c).2 ∧ (f c).2.full = c.full

theorem CurM.Solid.of {α} {msg : Bytes} {f : CurM α} (h : ∀ L O, FTriple msg L O f) (hn : CurM.Nou f) :
    CurM.Solid msg f := by
  intro c hc
  have := h c.lim c.orig c (Frame.of hc)
  have hnc := hn c
  cases hfc : f c with
  | mk r c' =>
    rw [hfc] at this hnc
    cases r with
    | ok a => exact ⟨trivial, trivial, this.1, by simp only [Cur.full, this.2.1, this.2.2]⟩
    | err e => exact ⟨trivial, hnc, this.1, by simp only [Cur.full, this.2.1, this.2.2]⟩
    | panic p => exact this.elim
    | ub => exact this.elim

theorem skipQuestion_solid (msg : Bytes) : CurM.Solid msg (skipQuestion msg) :=
  CurM.Solid.of (skipQuestion_ftriple msg) (by
    unfold skipQuestion
    exact CurM.Nou.bind (CurM.Nou.skipName msg) (fun _ => CurM.Nou.skip 4))

theorem skipName_solid (msg : Bytes) : CurM.Solid msg (CurM.skipName msg) :=
  CurM.Solid.of (FTriple.skipName msg) (CurM.Nou.skipName msg)

theorem readName_solid (k : NameKind) (msg : Bytes) : CurM.Solid msg (CurM.readName k msg) :=
  CurM.Solid.of (fun L O => FTriple.readName k msg L O) (CurM.Nou.readName k msg)

theorem skipM_solid (msg : Bytes) (n : Nat) : CurM.Solid msg (CurM.skip n) :=
  CurM.Solid.of (fun L O => FTriple.skip msg L O n) (CurM.Nou.skip n)

theorem readQuestion_solid (msg : Bytes) : CurM.Solid msg (readQuestion msg) :=
  CurM.Solid.of (readQuestion_ftriple msg) (by
    unfold readQuestion
    exact CurM.Nou.bind (CurM.Nou.readName .inline msg) (fun _ =>
      CurM.Nou.bind (CurM.Nou.u16be msg) (fun _ => CurM.Nou.bind (CurM.Nou.u16be msg) (fun _ => CurM.Nou.pure _))))

theorem readQuestionRef_solid (msg : Bytes) : CurM.Solid msg (readQuestionRef msg) :=
  CurM.Solid.of (readQuestionRef_ftriple msg) (by
    intro c
    unfold readQuestionRef
    exact (CurM.Nou.bind (CurM.Nou.skipName msg) (fun _ =>
      CurM.Nou.bind (CurM.Nou.u16be msg) (fun _ => CurM.Nou.bind (CurM.Nou.u16be msg) (fun _ => CurM.Nou.pure _)))) c)

theorem rawMarkerM_solid (msg : Bytes) (pos typeOffset section_ : Nat) :
    CurM.Solid msg (do
      let rtype ← CurM.u16be msg
      let rclass ← CurM.u16be msg
      let ttl ← CurM.u32be msg
      let rdlen ← CurM.u16be msg
      pure { offset := pos, typeOffset, rtype, rclass, ttl, rdlen, section_ : Marker }) :=
  CurM.Solid.of (fun L O => rawMarkerM_ftriple msg L O pos typeOffset section_)
    (CurM.Nou.bind (CurM.Nou.u16be msg) (fun _ => CurM.Nou.bind (CurM.Nou.u16be msg) (fun _ =>
      CurM.Nou.bind (CurM.Nou.u32be msg) (fun _ => CurM.Nou.bind (CurM.Nou.u16be msg) (fun _ => CurM.Nou.pure _)))))

/-! ### reader level -/

/-- outcome classifier: a value satisfying `Q` or an error satisfying `E`; never a panic, never UB -/
def ROut {α : Type} (x : Res α × Reader) (Q : α → Reader → Prop) (E : Err → Reader → Prop) : Prop :=
  match x with
  | (.ok a, r) => Q a r
  | (.err e, r) => E e r
  | (.panic _, _) => False
  | (.ub, _) => False

theorem ROut.mono {α} {x : Res α × Reader} {Q Q' : α → Reader → Prop} {E E' : Err → Reader → Prop}
    (h : ROut x Q E) (hq : ∀ a r, Q a r → Q' a r) (he : ∀ e r, E e r → E' e r) : ROut x Q' E' := by
  obtain ⟨res, r⟩ := x
  cases res with
  | ok a => exact hq a r h
  | err e => exact he e r h
  | panic p => exact h
  | ub => exact h

theorem ROut.safe {α} {x : Res α × Reader} {Q : α → Reader → Prop} {E : Err → Reader → Prop} (h : ROut x Q E) :
    x.1.safe := by
  obtain ⟨res, r⟩ := x
  cases res <;> first | trivial | exact h

/-- the reader's static invariant: cursor inside the message, counters sane -/
def Base (msg : Bytes) (r : Reader) : Prop := RInv msg r ∧ CSane r.tr

theorem onCur_solid {α} {msg : Bytes} {r : Reader} {f : CurM α} (hr : RInv msg r) (hf : CurM.Solid msg f) :
    ROut (r.onCur f) (fun a r' => RInv msg r' ∧ r'.tr = r.tr ∧ r'.done = r.done ∧ f r.cur = (.ok a, r'.cur))
      (fun e r' => RInv msg r' ∧ r'.tr = r.tr ∧ r'.done = r.done ∧ NotOU e) := by
  unfold Reader.onCur
  have := hf r.cur hr.1
  cases hfc : f r.cur with
  | mk res c =>
    rw [hfc] at this
    have hinv : RInv msg { r with cur := c } := ⟨this.2.2.1, by simp only; rw [this.2.2.2]; exact hr.2⟩
    cases res with
    | ok a => exact ⟨hinv, rfl, rfl, rfl⟩
    | err e => exact ⟨hinv, rfl, rfl, this.2.1⟩
    | panic p => exact this.1
    | ub => exact this.1

theorem markDone_rout {α} {x : Res α × Reader} {Q : α → Reader → Prop} {E : Err → Reader → Prop}
    (h : ROut x Q (fun e r => E e { r with done := true })) : ROut (markDone x) Q E := by
  obtain ⟨res, r⟩ := x
  cases res with
  | ok a => exact h
  | err e => exact h
  | panic p => exact h
  | ub => exact h

theorem Base.setDone {msg : Bytes} {r : Reader} (h : Base msg r) (b : Bool) : Base msg { r with done := b } := h

/-! ### questions -/

theorem readQ_rout {msg : Bytes} {r : Reader} (hr : RInv msg r) (owned : Bool) :
    ROut (r.readQ msg owned) (fun _ r' => RInv msg r' ∧ r'.tr = r.tr ∧ r'.done = r.done)
      (fun e r' => RInv msg r' ∧ r'.tr = r.tr ∧ r'.done = r.done ∧ NotOU e) := by
  unfold Reader.readQ
  split
  · have h1 := onCur_solid hr (readQuestion_solid msg)
    cases hq : r.onCur (readQuestion msg) with
    | mk res r1 =>
      rw [hq] at h1
      cases res with
      | ok q => exact ⟨h1.1, h1.2.1, h1.2.2.1⟩
      | err e => exact h1
      | panic p => exact h1
      | ub => exact h1
  · have h1 := onCur_solid hr (readQuestionRef_solid msg)
    cases hq : r.onCur (readQuestionRef msg) with
    | mk res r1 =>
      rw [hq] at h1
      cases res with
      | ok q => exact ⟨h1.1, h1.2.1, h1.2.2.1⟩
      | err e => exact h1
      | panic p => exact h1
      | ub => exact h1

theorem afterQ_rout {msg : Bytes} {r : Reader} {x : Res QOut × Reader} (hc : CSane r.tr)
    (hlt : r.tr.qd.read < r.tr.qd.total)
    (h : ROut x (fun _ r' => RInv msg r' ∧ r'.tr = r.tr ∧ r'.done = r.done)
      (fun e r' => RInv msg r' ∧ r'.tr = r.tr ∧ r'.done = r.done ∧ NotOU e)) :
    ROut (Reader.afterQ x) (fun _ r' => Base msg r') (fun _ r' => Base msg r') := by
  unfold Reader.afterQ
  obtain ⟨res, r1⟩ := x
  cases res with
  | ok q =>
    obtain ⟨hi, ht, hd⟩ := h
    simp only
    obtain ⟨t', he, hc'⟩ := (hc.congr (t' := r1.tr) (by rw [ht]) (by rw [ht])).questionRead (by rw [ht]; exact hlt) r1.cur.pos
    rw [he]
    exact ⟨hi, hc'⟩
  | err e =>
    obtain ⟨hi, ht, hd, _⟩ := h
    exact ⟨hi, by show CSane r1.tr; rw [ht]; exact hc⟩
  | panic p => exact h
  | ub => exact h

theorem question_rout {msg : Bytes} {r : Reader} (hb : Base msg r) (k : QKind) :
    ROut (r.question msg k) (fun _ r' => Base msg r') (fun _ r' => Base msg r') := by
  unfold Reader.question
  split
  · exact hb
  · rw [hb.2.left_q]
    simp only
    split
    · exact hb
    · split
      · exact hb
      · rename_i h1 h2
        apply afterQ_rout hb.2 _ (readQ_rout hb.1 _)
        cases hs : (k == .theQuestion || k == .theQuestionRef) with
        | true =>
          simp only [hs, Bool.true_and, bne_iff_ne, ne_eq, Decidable.not_not] at h2
          omega
        | false =>
          simp only [hs, Bool.not_false, Bool.true_and, beq_iff_eq] at h1
          omega

theorem skipQuestionsImpl_rout {msg : Bytes} (fuel : Nat) {r : Reader} (hb : Base msg r) :
    ROut (r.skipQuestionsImpl msg fuel) (fun _ r' => Base msg r' ∧ r'.done = r.done)
      (fun e r' => Base msg r' ∧ r'.done = r.done ∧ NotOU e) := by
  induction fuel generalizing r with
  | zero => exact ⟨hb, rfl⟩
  | succ fuel ih =>
    unfold Reader.skipQuestionsImpl
    rw [hb.2.left_q]
    simp only
    split
    · rename_i hpos
      have h1 := onCur_solid hb.1 (skipQuestion_solid msg)
      cases hq : r.onCur (skipQuestion msg) with
      | mk res r1 =>
        rw [hq] at h1
        cases res with
        | ok u =>
          obtain ⟨hi, ht, hd, _⟩ := h1
          simp only
          have hc1 : CSane r1.tr := by rw [ht]; exact hb.2
          obtain ⟨t', he, hc'⟩ := hc1.questionRead (by rw [ht]; omega) r1.cur.pos
          rw [he]
          simp only
          have := ih (r := { r1 with tr := t' }) ⟨hi, hc'⟩
          exact this.mono (fun a r' h => ⟨h.1, by rw [h.2]; exact hd⟩) (fun e r' h => ⟨h.1, by rw [h.2.1]; exact hd, h.2.2⟩)
        | err e =>
          obtain ⟨hi, ht, hd, hn⟩ := h1
          exact ⟨⟨hi, by show CSane r1.tr; rw [ht]; exact hb.2⟩, hd, hn⟩
        | panic p => exact h1
        | ub => exact h1
    · exact ⟨hb, rfl⟩

theorem skipQuestions_rout {msg : Bytes} {r : Reader} (hb : Base msg r) :
    ROut (r.skipQuestions msg) (fun _ r' => Base msg r') (fun _ r' => Base msg r') := by
  unfold Reader.skipQuestions
  split
  · exact hb
  · apply markDone_rout
    exact (skipQuestionsImpl_rout r.qFuel hb).mono (fun a r' h => h.1) (fun e r' h => h.1)

/-! ### records -/

/-- what a successful record-header call establishes about the marker it returns -/
def MarkerAt (r : Reader) (m : Marker) : Prop :=
  r.cur.pos = m.rdataPos ∧ m.section_ < 3 ∧ (r.tr.sec m.section_).read < (r.tr.sec m.section_).total

/-- the owner-name part of a record-header result: `record_header_ref` returns a reference (a cursor
    inside the message) -/
def HNameOK (msg : Bytes) : HKind → HName → Prop
  | .ref, .ref c => Cur.OK msg c
  | .ref, _ => False
  | _, _ => True

theorem rawMarker_rout {msg : Bytes} {r : Reader} (hr : RInv msg r) (pos s : Nat) :
    ROut (r.rawMarker msg pos s)
      (fun m r' => RInv msg r' ∧ r'.tr = r.tr ∧ r'.done = r.done ∧ r'.cur.pos = m.rdataPos ∧ m.section_ = s)
      (fun e r' => RInv msg r' ∧ r'.tr = r.tr ∧ r'.done = r.done ∧ NotOU e) := by
  have h := onCur_solid hr (rawMarkerM_solid msg pos r.cur.pos s)
  have hdef : r.rawMarker msg pos s = r.onCur (do
      let rtype ← CurM.u16be msg
      let rclass ← CurM.u16be msg
      let ttl ← CurM.u32be msg
      let rdlen ← CurM.u16be msg
      pure { offset := pos, typeOffset := r.cur.pos, rtype, rclass, ttl, rdlen, section_ := s : Marker }) := rfl
  cases hx : r.rawMarker msg pos s with
  | mk res r' =>
    rw [← hdef, hx] at h
    cases res with
    | ok m =>
      obtain ⟨hi, ht, hd, _⟩ := h
      obtain ⟨_, hto, hsec, _, hr'⟩ := C09.rawMarker_inv msg r pos s m r' hx
      refine ⟨hi, ht, hd, ?_, hsec⟩
      rw [hr']
      simp only [Marker.rdataPos, hto, TYPE_TO_RDATA_OFFSET]
    | err e => exact h
    | panic p => exact h
    | ub => exact h

theorem headerImpl_rout {msg : Bytes} {r : Reader} (hb : Base msg r) (k : HKind) :
    ROut (r.headerImpl msg k)
      (fun x r' => Base msg r' ∧ r'.done = r.done ∧ MarkerAt r' x.2 ∧ HNameOK msg k x.1)
      (fun e r' => Base msg r' ∧ r'.done = r.done ∧ NotOU e) := by
  unfold Reader.headerImpl Reader.calcSection
  have hns := nextSection_facts r.tr r.cur.pos
  cases hn : r.tr.nextSection r.cur.pos with
  | mk so t' =>
    rw [hn] at hns
    cases so with
    | none =>
      simp only at hns
      subst hns
      simp only
      exact ⟨hb, rfl, by intro s; simp⟩
    | some s =>
      simp only at hns
      obtain ⟨hs3, hlt, hsec, hqd⟩ := hns
      simp only
      have hr1 : RInv msg { r with tr := t' } := hb.1
      have hc1 : CSane t' := hb.2.congr hsec hqd
      -- the name step
      have hname : ∀ (x : Res HName × Reader),
          ROut x (fun hn r2 => RInv msg r2 ∧ r2.tr = t' ∧ r2.done = r.done ∧ HNameOK msg k hn)
            (fun e r2 => RInv msg r2 ∧ r2.tr = t' ∧ r2.done = r.done ∧ NotOU e) →
          ROut (match x with
            | (.ok hn, r2) =>
              match r2.rawMarker msg r.cur.pos s with
              | (.ok m, r3) => ((.ok (hn, m) : Res (HName × Marker)), r3)
              | (.err e, r3) => (.err e, r3)
              | (.panic p, r3) => (.panic p, r3)
              | (.ub, r3) => (.ub, r3)
            | (.err e, r2) => (.err e, r2)
            | (.panic p, r2) => (.panic p, r2)
            | (.ub, r2) => (.ub, r2))
            (fun x r' => Base msg r' ∧ r'.done = r.done ∧ MarkerAt r' x.2 ∧ HNameOK msg k x.1)
            (fun e r' => Base msg r' ∧ r'.done = r.done ∧ NotOU e) := by
        intro x hx
        obtain ⟨res, r2⟩ := x
        cases res with
        | ok hn' =>
          obtain ⟨hi2, ht2, hd2, hk2⟩ := hx
          simp only
          have hm := rawMarker_rout hi2 r.cur.pos s
          cases hrm : r2.rawMarker msg r.cur.pos s with
          | mk res3 r3 =>
            rw [hrm] at hm
            cases res3 with
            | ok m =>
              obtain ⟨hi3, ht3, hd3, hp3, hs3'⟩ := hm
              refine ⟨⟨hi3, by rw [ht3, ht2]; exact hc1⟩, by rw [hd3, hd2], ⟨hp3, by rw [hs3']; exact hs3, ?_⟩, hk2⟩
              simp only
              rw [ht3, ht2, hs3', hsec]
              exact hlt
            | err e =>
              obtain ⟨hi3, ht3, hd3, hn3⟩ := hm
              exact ⟨⟨hi3, by rw [ht3, ht2]; exact hc1⟩, by rw [hd3, hd2], hn3⟩
            | panic p => exact hm
            | ub => exact hm
        | err e =>
          obtain ⟨hi2, ht2, hd2, hn2⟩ := hx
          exact ⟨⟨hi2, by rw [ht2]; exact hc1⟩, hd2, hn2⟩
        | panic p => exact hx
        | ub => exact hx
      apply hname
      cases k with
      | marker =>
        simp only
        have hskip := onCur_solid hr1 (skipName_solid msg)
        cases hs : Reader.onCur { r with tr := t' } (CurM.skipName msg) with
        | mk res r2 =>
          rw [hs] at hskip
          cases res with
          | ok v => exact ⟨hskip.1, hskip.2.1, hskip.2.2.1, trivial⟩
          | err e => exact hskip
          | panic p => exact hskip
          | ub => exact hskip
      | ref =>
        simp only
        have hskip := onCur_solid hr1 (skipName_solid msg)
        cases hs : Reader.onCur { r with tr := t' } (CurM.skipName msg) with
        | mk res r2 =>
          rw [hs] at hskip
          cases res with
          | ok v => exact ⟨hskip.1, hskip.2.1, hskip.2.2.1, hb.1.1⟩
          | err e => exact hskip
          | panic p => exact hskip
          | ub => exact hskip
      | owned nk =>
        simp only
        have hread := onCur_solid hr1 (readName_solid nk msg)
        cases hs : Reader.onCur { r with tr := t' } (CurM.readName nk msg) with
        | mk res r2 =>
          rw [hs] at hread
          cases res with
          | ok v => exact ⟨hread.1, hread.2.1, hread.2.2.1, trivial⟩
          | err e => exact hread
          | panic p => exact hread
          | ub => exact hread

theorem recordHeader_rout {msg : Bytes} {r : Reader} (hb : Base msg r) (k : HKind) :
    ROut (r.recordHeader msg k) (fun x r' => Base msg r' ∧ r'.done = r.done ∧ MarkerAt r' x.2 ∧ HNameOK msg k x.1)
      (fun _ r' => Base msg r') := by
  unfold Reader.recordHeader
  split
  · exact hb
  · apply markDone_rout
    exact (headerImpl_rout hb k).mono (fun a r' h => h) (fun e r' h => h.1)

/-- the tail of every data call -/
theorem finishData_rout {α} {msg : Bytes} {r : Reader} (m : Marker) {x : Res α × Reader} (hc : CSane r.tr)
    (hs : m.section_ < 3) (hlt : (r.tr.sec m.section_).read < (r.tr.sec m.section_).total)
    (h : ROut x (fun _ r' => RInv msg r' ∧ r'.tr = r.tr ∧ r'.done = r.done)
      (fun e r' => RInv msg r' ∧ r'.tr = r.tr)) :
    ROut (Reader.finishData m x) (fun _ r' => Base msg r' ∧ r'.done = r.done) (fun _ r' => Base msg r') := by
  unfold Reader.finishData
  obtain ⟨res, r1⟩ := x
  cases res with
  | ok v =>
    obtain ⟨hi, ht, hd⟩ := h
    simp only
    have hc1 : CSane r1.tr := by rw [ht]; exact hc
    obtain ⟨t', he, hc'⟩ := hc1.sectionRead m.section_ hs (by rw [ht]; exact hlt) r1.cur.pos
    rw [he]
    exact ⟨⟨hi, hc'⟩, hd⟩
  | err e =>
    obtain ⟨hi, ht⟩ := h
    exact ⟨hi, by show CSane r1.tr; rw [ht]; exact hc⟩
  | panic p => exact h
  | ub => exact h

theorem skipDataImpl_rout {msg : Bytes} {r : Reader} (hb : Base msg r) (m : Marker) (hm : MarkerAt r m) :
    ROut (r.skipDataImpl m) (fun _ r' => Base msg r' ∧ r'.done = r.done) (fun _ r' => Base msg r') := by
  unfold Reader.skipDataImpl
  apply finishData_rout m hb.2 hm.2.1 hm.2.2
  exact (onCur_solid hb.1 (skipM_solid msg m.rdlen)).mono (fun a r' h => ⟨h.1, h.2.1, h.2.2.1⟩) (fun e r' h => ⟨h.1, h.2.1⟩)

theorem readRData_rout {msg : Bytes} {r : Reader} (hr : RInv msg r) (t : RType) (n : Nat) :
    ROut (r.onCur (readRData t msg n)) (fun _ r' => RInv msg r' ∧ r'.tr = r.tr ∧ r'.done = r.done)
      (fun e r' => RInv msg r' ∧ r'.tr = r.tr) := by
  unfold Reader.onCur
  have hg := CurM.Good.readRData t msg n r.cur hr.1
  have hs := readRData_spec t msg n r.cur hr.1
  cases hfc : readRData t msg n r.cur with
  | mk res c =>
    rw [hfc] at hg hs
    have hinv : RInv msg { r with cur := c } := ⟨hg.2.1, by simp only; rw [hg.2.2]; exact hr.2⟩
    cases res with
    | ok a => exact ⟨hinv, rfl, rfl⟩
    | err e => exact ⟨hinv, rfl⟩
    | panic p => exact hs
    | ub => exact hs

theorem slice_rout {msg : Bytes} {r : Reader} (hr : RInv msg r) (n : Nat) :
    ROut (r.onCur (CurM.slice msg n)) (fun _ r' => RInv msg r' ∧ r'.tr = r.tr ∧ r'.done = r.done)
      (fun e r' => RInv msg r' ∧ r'.tr = r.tr) :=
  (onCur_solid hr (CurM.Solid.of (fun L O => FTriple.slice msg L O n) (CurM.Nou.lift (fun c => slice_nou msg c n)))).mono
    (fun a r' h => ⟨h.1, h.2.1, h.2.2.1⟩) (fun e r' h => ⟨h.1, h.2.1⟩)

theorem skipData_rout {msg : Bytes} {r : Reader} (hb : Base msg r) (m : Marker) (hm : MarkerAt r m) :
    ROut (r.skipData m) (fun _ r' => Base msg r') (fun _ r' => Base msg r') := by
  unfold Reader.skipData Reader.assertAt
  rw [if_pos hm.1]
  split
  · exact hb
  · exact (skipDataImpl_rout hb m hm).mono (fun a r' h => h.1) (fun e r' h => h)

theorem dataBytes_rout {msg : Bytes} {r : Reader} (hb : Base msg r) (m : Marker) (hm : MarkerAt r m) :
    ROut (r.dataBytes msg m) (fun _ r' => Base msg r') (fun _ r' => Base msg r') := by
  unfold Reader.dataBytes Reader.assertAt
  rw [if_pos hm.1]
  split
  · exact hb
  · exact (finishData_rout m hb.2 hm.2.1 hm.2.2 (slice_rout hb.1 m.rdlen)).mono (fun a r' h => h.1) (fun e r' h => h)

theorem data_rout {msg : Bytes} {r : Reader} (hb : Base msg r) (t : RType) (m : Marker) (hm : MarkerAt r m) :
    ROut (r.data msg t m) (fun _ r' => Base msg r') (fun _ r' => Base msg r') := by
  unfold Reader.data Reader.assertAt
  rw [if_pos hm.1]
  split
  · exact hb
  · exact (finishData_rout m hb.2 hm.2.1 hm.2.2 (readRData_rout hb.1 t m.rdlen)).mono (fun a r' h => h.1) (fun e r' h => h)

theorem optRecord_rout {msg : Bytes} {r : Reader} (hb : Base msg r) (m : Marker) (hm : MarkerAt r m)
    (ht : m.rtype = TYPE_OPT) :
    ROut (r.optRecord m) (fun _ r' => Base msg r') (fun _ r' => Base msg r') := by
  unfold Reader.optRecord Reader.assertAt
  split
  · exact hb
  · rw [if_pos hm.1]
    have : ¬ m.rtype ≠ TYPE_OPT := by simp [ht]
    rw [if_neg this]
    apply (finishData_rout (msg := msg) (r := r) m hb.2 hm.2.1 hm.2.2 _).mono (fun a r' h => h.1) (fun e r' h => h)
    have h1 := onCur_solid hb.1 (skipM_solid msg m.rdlen)
    cases hq : r.onCur (CurM.skip m.rdlen) with
    | mk res r1 =>
      rw [hq] at h1
      cases res with
      | ok u => exact ⟨h1.1, h1.2.1, h1.2.2.1⟩
      | err e => exact ⟨h1.1, h1.2.1⟩
      | panic p => exact h1
      | ub => exact h1

/-! ### seek -/

theorem skipSectionImpl_rout {msg : Bytes} (s : Nat) (hs : s < 3) (fuel : Nat) {r : Reader} (hb : Base msg r) :
    ROut (r.skipSectionImpl msg s fuel) (fun _ r' => Base msg r' ∧ r'.done = r.done)
      (fun e r' => Base msg r' ∧ NotOU e) := by
  induction fuel generalizing r with
  | zero => exact ⟨hb, rfl⟩
  | succ fuel ih =>
    unfold Reader.skipSectionImpl
    rw [hb.2.left_s s]
    simp only
    split
    · have h1 := headerImpl_rout hb .marker
      cases hh : r.headerImpl msg .marker with
      | mk res r1 =>
        rw [hh] at h1
        cases res with
        | ok x =>
          obtain ⟨hn, m⟩ := x
          obtain ⟨hb1, hd1, hm1, _⟩ := h1
          simp only
          have h2 := skipDataImpl_rout hb1 m hm1
          cases hsd : r1.skipDataImpl m with
          | mk res2 r2 =>
            rw [hsd] at h2
            cases res2 with
            | ok u =>
              obtain ⟨hb2, hd2⟩ := h2
              simp only
              exact (ih hb2).mono (fun a r' h => ⟨h.1, by rw [h.2, hd2, hd1]⟩) (fun e r' h => h)
            | err e =>
              -- `skip_record_data_impl` fails only when the cursor's `skip` fails: a bounds error
              refine ⟨h2, ?_⟩
              unfold Reader.skipDataImpl Reader.finishData at hsd
              have h3 := onCur_solid hb1.1 (skipM_solid msg m.rdlen)
              cases hq : r1.onCur (CurM.skip m.rdlen) with
              | mk res3 r3 =>
                rw [hq] at hsd h3
                cases res3 with
                | ok u =>
                  obtain ⟨hi3, ht3, _, _⟩ := h3
                  simp only at hsd
                  have hc3 : CSane r3.tr := by rw [ht3]; exact hb1.2
                  obtain ⟨t', he, _⟩ := hc3.sectionRead m.section_ hm1.2.1 (by rw [ht3]; exact hm1.2.2) r3.cur.pos
                  rw [he] at hsd
                  simp at hsd
                | err e3 =>
                  simp only [Prod.mk.injEq, Res.err.injEq] at hsd
                  rw [← hsd.1]
                  exact h3.2.2.2
                | panic p => simp at hsd
                | ub => simp at hsd
            | panic p => exact h2
            | ub => exact h2
        | err e => exact ⟨h1.1, h1.2.2⟩
        | panic p => exact h1
        | ub => exact h1
    · exact ⟨hb, rfl⟩

theorem seekImpl_rout {msg : Bytes} {r : Reader} (hb : Base msg r) (s : Nat) :
    ROut (r.seekImpl msg s) (fun _ r' => Base msg r') (fun e r' => Base msg r' ∧ NotOU e) := by
  unfold Reader.seekImpl
  have h1 := skipQuestionsImpl_rout (msg := msg) r.qFuel hb
  cases hq : r.skipQuestionsImpl msg r.qFuel with
  | mk res r1 =>
    rw [hq] at h1
    cases res with
    | ok u =>
      obtain ⟨hb1, _⟩ := h1
      simp only
      split
      · exact hb1
      · have h2 := skipSectionImpl_rout (msg := msg) 0 (by omega) (r1.sFuel 0) hb1
        cases hs0 : r1.skipSectionImpl msg 0 (r1.sFuel 0) with
        | mk res2 r2 =>
          rw [hs0] at h2
          cases res2 with
          | ok u2 =>
            obtain ⟨hb2, _⟩ := h2
            simp only
            split
            · exact hb2
            · exact (skipSectionImpl_rout (msg := msg) 1 (by omega) (r2.sFuel 1) hb2).mono (fun a r' h => h.1) (fun e r' h => h)
          | err e => exact h2
          | panic p => exact h2
          | ub => exact h2
    | err e => exact ⟨h1.1, h1.2.2⟩
    | panic p => exact h1
    | ub => exact h1

/-- `seek`: a value or an error; `RecordsSectionOffsetUnknown` only with the reader untouched -/
theorem seek_rout {msg : Bytes} {r : Reader} (hb : Base msg r) (s : Nat) :
    ROut (r.seek msg s) (fun _ r' => Base msg r') (fun e r' => Base msg r' ∧ (¬ NotOU e → r' = r)) := by
  unfold Reader.seek
  split
  · exact ⟨hb, fun _ => rfl⟩
  · split
    · rename_i off hoff
      refine ⟨⟨hb.1.1.setPos off, ?_⟩, hb.2.seek s⟩
      show (r.cur.setPos off).full = msg.size
      exact hb.1.2
    · split
      · exact ⟨hb, fun _ => rfl⟩
      · apply markDone_rout
        exact (seekImpl_rout hb s).mono (fun a r' h => h) (fun e r' h => ⟨h.1, fun hn => absurd h.2 hn⟩)

/-! ### header, counts, random access -/

theorem header_rout {msg : Bytes} {r : Reader} (hr : RInv msg r) (ht : r.tr = Tracker.default) :
    ROut (r.header msg) (fun _ r' => Base msg r') (fun _ r' => Base msg r') := by
  have hdflt : CSane Tracker.default :=
    ⟨Nat.le_refl _, by simp [Tracker.default], fun j => Nat.le_refl _, fun j _ => by simp [Tracker.default]⟩
  unfold Reader.header Reader.onCur
  rcases readHeader_spec msg r.cur hr.1 with ⟨hd, he, hle⟩ | he
  · have hf := C02.header_fields msg r.cur hr.1 hle
    rw [he] at hf
    simp only [Prod.mk.injEq, Res.ok.injEq, and_true] at hf
    simp only [he, markDone]
    refine ⟨⟨⟨hr.1.lim_le, hr.1.orig_le⟩, hr.2⟩, ?_⟩
    have hq := C02.beNat2_lt msg (r.cur.pos + 4)
    have ha := C02.beNat2_lt msg (r.cur.pos + 6)
    have hn := C02.beNat2_lt msg (r.cur.pos + 8)
    have hx := C02.beNat2_lt msg (r.cur.pos + 10)
    subst hf
    simp only [ht]
    refine ⟨by simp [Tracker.set, Tracker.default], by simp only [Tracker.set, Tracker.default]; omega, ?_, ?_⟩
    · intro j
      simp only [Tracker.set, Tracker.default, upd]
      split <;> (try split) <;> (try split) <;> simp
    · intro j hj
      simp only [Tracker.set, Tracker.default, upd]
      split <;> (try split) <;> (try split) <;> simp only <;> omega
  · simp only [he, markDone]
    exact ⟨hr, by show CSane r.tr; rw [ht]; exact hdflt⟩

theorem counts_safe {r : Reader} (hc : CSane r.tr) (s : Nat) :
    r.questionsCount.safe ∧ r.recordsCount.safe ∧ (r.recordsCountIn s).safe := by
  unfold Reader.questionsCount Reader.recordsCount Reader.recordsCountIn
  obtain ⟨n, hn⟩ := hc.left_all
  rw [hc.left_q, hn, hc.left_s s]
  refine ⟨?_, ?_, ?_⟩ <;> split <;> trivial

theorem dataBytesAt_safe {msg : Bytes} {r : Reader} (hr : RInv msg r) (m : Marker) : (r.dataBytesAt msg m).safe := by
  unfold Reader.dataBytesAt
  have := (FTriple.slice msg _ _ m.rdlen) _ (Frame.of (hr.1.cloneWithPos m.rdataPos))
  cases hx : CurM.slice msg m.rdlen (r.cur.cloneWithPos m.rdataPos) with
  | mk res c =>
    rw [hx] at this
    cases res <;> first | trivial | exact this

theorem dataAt_safe {msg : Bytes} {r : Reader} (hr : RInv msg r) (t : RType) (m : Marker) :
    (r.dataAt msg t m).safe := by
  unfold Reader.dataAt
  have := readRData_spec t msg m.rdlen _ (hr.1.cloneWithPos m.rdataPos)
  cases hx : readRData t msg m.rdlen (r.cur.cloneWithPos m.rdataPos) with
  | mk res c =>
    rw [hx] at this
    cases res <;> first | trivial | exact this

theorem mapRes_safe {α} {f : α → Val} {x : Res α} (h : x.safe) : (mapRes f x).safe := by
  cases x <;> first | trivial | exact h

/-! ### one call, then histories -/

/-- the part of the documented call protocol that panic-freedom depends on: `header()` is called once
    (first); a data call is made with the marker that the preceding record-header call returned;
    `opt_record` only for a marker of type OPT.  Everything else — order of question and record calls,
    seeks, counts, random access — is unrestricted.  (`C09.Allowed` implies it.) -/
def Permitted (p : Option Marker) : Op → Prop
  | .header => False
  | .skipData m => p = some m
  | .dataBytes m => p = some m
  | .data _ m => p = some m
  | .optRecord m => p = some m ∧ m.rtype = TYPE_OPT
  | _ => True

theorem Permitted.of_allowed {r : Reader} {p : Option Marker} {op : Op} (h : C09.Allowed r p op) : Permitted p op := by
  cases op <;> simp_all [C09.Allowed, Permitted]

/-- the invariant of conforming histories -/
def Sane (msg : Bytes) (r : Reader) (p : Option Marker) : Prop :=
  Base msg r ∧ ∀ m, p = some m → MarkerAt r m

theorem mapVal_base {α} {msg : Bytes} (f : α → Val) {x : Res α × Reader}
    (h : ROut x (fun _ r' => Base msg r') (fun _ r' => Base msg r')) :
    (mapVal f x).1.safe ∧ Sane msg (mapVal f x).2 none := by
  obtain ⟨res, r'⟩ := x
  cases res with
  | ok a => exact ⟨trivial, h, fun m hm => by cases hm⟩
  | err e => exact ⟨trivial, h, fun m hm => by cases hm⟩
  | panic p => exact h.elim
  | ub => exact h.elim

theorem step_sane {msg : Bytes} {r : Reader} {p : Option Marker} (hS : Sane msg r p) (op : Op) (ha : Permitted p op) :
    (r.step msg op).1.safe ∧ Sane msg (r.step msg op).2 (C09.nextPend p op (r.step msg op).1) := by
  obtain ⟨hb, hp⟩ := hS
  have hcnt := counts_safe hb.2
  cases op with
  | header => exact ha.elim
  | question k =>
    have h := mapVal_base (msg := msg) Val.question (question_rout hb k)
    exact ⟨h.1, by simpa [Reader.step, C09.nextPend] using h.2⟩
  | skipQuestions =>
    have h := mapVal_base (msg := msg) (fun _ => Val.unit) (skipQuestions_rout hb)
    exact ⟨h.1, by simpa [Reader.step, C09.nextPend] using h.2⟩
  | recordHeader k =>
    have h := recordHeader_rout hb k
    simp only [Reader.step]
    cases hx : r.recordHeader msg k with
    | mk res r' =>
      rw [hx] at h
      cases res with
      | ok x =>
        obtain ⟨hn, m⟩ := x
        refine ⟨trivial, h.1, ?_⟩
        intro m' hm'
        simp only [mapVal, C09.nextPend, Option.some.injEq] at hm'
        subst hm'
        exact h.2.2.1
      | err e => exact ⟨trivial, h, fun m hm => by simp [mapVal, C09.nextPend] at hm⟩
      | panic q => exact h.elim
      | ub => exact h.elim
  | skipData m =>
    have h := mapVal_base (msg := msg) (fun _ => Val.unit) (skipData_rout hb m (hp m ha))
    exact ⟨h.1, by simpa [Reader.step, C09.nextPend] using h.2⟩
  | dataBytes m =>
    have h := mapVal_base (msg := msg) Val.bytes (dataBytes_rout hb m (hp m ha))
    exact ⟨h.1, by simpa [Reader.step, C09.nextPend] using h.2⟩
  | data t m =>
    have h := mapVal_base (msg := msg) Val.rdata (data_rout hb t m (hp m ha))
    exact ⟨h.1, by simpa [Reader.step, C09.nextPend] using h.2⟩
  | optRecord m =>
    have h := mapVal_base (msg := msg) Val.opt (optRecord_rout hb m (hp m ha.1) ha.2)
    exact ⟨h.1, by simpa [Reader.step, C09.nextPend] using h.2⟩
  | seek s =>
    have h := seek_rout (msg := msg) hb s
    simp only [Reader.step]
    cases hx : r.seek msg s with
    | mk res r' =>
      rw [hx] at h
      cases res with
      | ok u => exact ⟨trivial, h, fun m hm => by simp [mapVal, C09.nextPend] at hm⟩
      | err e =>
        refine ⟨trivial, h.1, ?_⟩
        by_cases hn : NotOU e
        · intro m hm
          have : C09.nextPend p (.seek s) (.err e) = none := by
            cases e <;> first | rfl | exact absurd rfl (hn _)
          simp only [mapVal] at hm
          rw [this] at hm
          cases hm
        · have hr' := h.2 hn
          subst hr'
          intro m hm
          have : C09.nextPend p (.seek s) (.err e) = p := by
            cases e <;> first | rfl | exact absurd (fun s' => by simp) hn
          simp only [mapVal] at hm
          rw [this] at hm
          exact hp m hm
      | panic q => exact h.elim
      | ub => exact h.elim
  | questionsCount => exact ⟨mapRes_safe (hcnt 0).1, hb, hp⟩
  | recordsCount => exact ⟨mapRes_safe (hcnt 0).2.1, hb, hp⟩
  | recordsCountIn s => exact ⟨mapRes_safe (hcnt s).2.2, hb, hp⟩
  | dataBytesAt m => exact ⟨mapRes_safe (dataBytesAt_safe hb.1 m), hb, hp⟩
  | dataAt t m => exact ⟨mapRes_safe (dataAt_safe hb.1 t m), hb, hp⟩
  | nameRefAt m => exact ⟨trivial, hb, hp⟩

/-- a call history that respects `Permitted` at every call -/
def Conforms (msg : Bytes) : Reader → Option Marker → List Op → Prop
  | _, _, [] => True
  | r, p, op :: ops => Permitted p op ∧ Conforms msg (r.step msg op).2 (C09.nextPend p op (r.step msg op).1) ops

theorem run_sane {msg : Bytes} : ∀ (ops : List Op) (r : Reader) (p : Option Marker), Sane msg r p → Conforms msg r p ops →
    ∀ o ∈ (Reader.run msg r ops).1, o.safe := by
  intro ops
  induction ops with
  | nil => intro r p _ _ o ho; simp [Reader.run] at ho
  | cons op ops ih =>
    intro r p hS hC o ho
    obtain ⟨ha, hrest⟩ := hC
    obtain ⟨hsafe, hS'⟩ := step_sane hS op ha
    simp only [Reader.run, List.mem_cons] at ho
    rcases ho with rfl | ho
    · exact hsafe
    · exact ih _ _ hS' hrest o ho

end Rsdns
