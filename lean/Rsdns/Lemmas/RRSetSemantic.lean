/-
  Rsdns.Lemmas.RRSetSemantic — on well-formed records the header-level chain (`chain`, over owner
  references compared by `NameRef::eq`) is the semantic chain (`chainS`, over decoded name texts compared
  like `Name ==`): references to legal names compare as their texts, a CNAME's `name_ref_at` is its
  target, random access at a marker of type `D` decodes the record's value.
-/
import Rsdns.Lemmas.RRSetDecode
import Rsdns.Lemmas.PassDecode
import Rsdns.Lemmas.ReaderSafe
set_option linter.unusedVariables false
namespace Rsdns.C06
open Rsdns Generated Spec C09 C02

/-! ## from header references to decoded names -/

theorem NameAt.mono_lim {msg : Bytes} {lim lim' s pos : Nat} {ls : List Bytes} {nxt hops : Nat}
    (h : NameAt msg lim s pos ls nxt hops) (hle : lim ≤ lim') (hsz : lim' ≤ msg.size) :
    NameAt msg lim' s pos ls nxt hops := by
  induction h with
  | zero s pos h0 hlt => exact .zero s pos h0 (by omega)
  | label s pos n l ls nxt h hb hp hl hs hm he _ ih => exact .label s pos n l ls nxt h hb hp hl (by omega) hsz he ih
  | ptr s pos b1 b2 ls nxt' h hb hge hb2 hfit hlt _ ih => exact .ptr s pos b1 b2 ls nxt' h hb hge hb2 (by omega) hlt ih

theorem LegalName.mono_lim {msg : Bytes} {lim lim' pos : Nat} {ls : List Bytes} {nxt : Nat}
    (h : LegalName msg lim pos ls nxt) (hle : lim ≤ lim') (hsz : lim' ≤ msg.size) : LegalName msg lim' pos ls nxt := by
  obtain ⟨hops, hn, hh, hck, hlen⟩ := h
  exact ⟨hops, NameAt.mono_lim hn hle hsz, hh, hck, hlen⟩

/-- the cursor `c` is a reference (over the whole message) to a legally encoded name whose text is `text` -/
def NameIs (msg : Bytes) (c : Cur) (text : Bytes) : Prop :=
  c.lim = msg.size ∧ c.orig = none ∧ ∃ ls nxt, LegalName msg msg.size c.pos ls nxt ∧ text = nameText ls

theorem NameIs.read {msg : Bytes} {c : Cur} {text : Bytes} (h : NameIs msg c text) (k : NameKind) :
    ∃ c', readName k msg c = .ok (text, c') := by
  obtain ⟨hl, ho, ls, nxt, hn, ht⟩ := h
  obtain ⟨hops, hna, hh, hck, hlen⟩ := hn
  rw [← hl] at hna
  exact ⟨c.setPos nxt, by rw [ht]; exact C03.read_complete k msg c ls nxt hops hna hh hck hlen⟩

/-- `NameRef::eq` on two references to legal names is `==` on their texts -/
theorem NameIs.eq {msg : Bytes} {a b : Cur} {ta tb : Bytes} (ha : NameIs msg a ta) (hb : NameIs msg b tb) :
    nameRefEqQ msg a b = .ok (nameEq ta tb) := by
  obtain ⟨a', hra⟩ := ha.read .heap
  obtain ⟨b', hrb⟩ := hb.read .heap
  unfold nameRefEqQ
  rw [C08.nameref_eq_decoded .heap msg a b a' b' ta tb hra hrb]

theorem NameIs.eqOk {msg : Bytes} {a b : Cur} {ta tb : Bytes} (ha : NameIs msg a ta) (hb : NameIs msg b tb) :
    eqOk msg a b = nameEq ta tb := eqOk_of (ha.eq hb)

theorem NameIs.withPos {msg : Bytes} {p : Nat} {ls : List Bytes} {nxt : Nat} (h : LegalName msg msg.size p ls nxt) :
    NameIs msg (Cur.withPos msg p) (nameText ls) := ⟨rfl, rfl, ls, nxt, h, rfl⟩

theorem RType.ofCode_code (t : RType) : RType.ofCode t.code = some t := by
  cases t <;> decide

/-! ## header level = semantic level, on well-formed records -/

theorem hdrOf_nameIs {msg : Bytes} {x : RecSpec} (hx : x.WF msg) : NameIs msg (hdrOf msg x).1 (nameText x.labels) :=
  NameIs.withPos hx.1

theorem isSel_hdrOf {msg : Bytes} {t : RType} {c : Cur} {text : Bytes} {rclass : Nat} {x : RecSpec} (hx : x.WF msg)
    (hc : NameIs msg c text) : isSel msg t c rclass (hdrOf msg x) = selS t text rclass x := by
  have := (hdrOf_nameIs hx).eqOk hc
  simp only [hdrOf] at this
  simp only [isSel, selS, hdrOf, RecSpec.marker_rtype, RecSpec.marker_rclass, this]

theorem isCn_hdrOf {msg : Bytes} {c : Cur} {text : Bytes} {rclass : Nat} {x : RecSpec} (hx : x.WF msg)
    (hc : NameIs msg c text) : isCn msg c rclass (hdrOf msg x) = cnS text rclass x := by
  have := (hdrOf_nameIs hx).eqOk hc
  simp only [hdrOf] at this
  simp only [isCn, cnS, hdrOf, RecSpec.marker_rtype, RecSpec.marker_rclass, this]

/-- a well-formed CNAME record: its RDATA is a legal name, `name_ref_at` refers to it -/
theorem cname_target {msg : Bytes} {r : Reader} (hr : RInv msg r) {x : RecSpec} (hx : x.WF msg) (hty : x.rtype = TYPE_CNAME) :
    ∃ text, targetS x = some text ∧ NameIs msg (r.nameRefAt (hdrOf msg x).2) text := by
  obtain ⟨_, hfit, _, _, _, _, hbody⟩ := hx
  have hof : RType.ofCode x.rtype = some .cname := by rw [hty]; decide
  cases hb : x.body with
  | typed t' v =>
    rw [hb] at hbody
    obtain ⟨hof', hrda⟩ := hbody
    rw [hof] at hof'
    simp only [Option.some.injEq] at hof'
    subst hof'
    cases hrda with
    | dn _ _ _ ls hdn hn =>
      refine ⟨nameText ls, by simp [targetS, hb], ?_⟩
      have hc : r.nameRefAt (hdrOf msg x).2 = Cur.withPos msg (x.nxt + 10) := by
        simp only [Reader.nameRefAt, hdrOf, RecSpec.marker_rdataPos]
        exact cloneWithPos_eq hr _
      rw [hc]
      exact NameIs.withPos (LegalName.mono_lim hn hfit (Nat.le_refl _))
  | opt =>
    rw [hb] at hbody
    simp only at hbody
    rw [hty] at hbody
    exact absurd hbody (by decide)
  | raw =>
    rw [hb] at hbody
    simp only at hbody
    rw [hof] at hbody
    exact absurd hbody.1 (by simp)

/-- a well-formed record of type `D`: random access at its marker decodes its value -/
theorem typed_data {msg : Bytes} {r : Reader} (hr : RInv msg r) {x : RecSpec} (hx : x.WF msg) (t : RType)
    (hty : x.rtype = t.code) : ∃ v, valS x = some v ∧ r.dataAt msg t (hdrOf msg x).2 = .ok v := by
  obtain ⟨_, hfit, _, _, _, _, hbody⟩ := hx
  have hof : RType.ofCode x.rtype = some t := by rw [hty]; exact RType.ofCode_code t
  cases hb : x.body with
  | typed t' v =>
    rw [hb] at hbody
    obtain ⟨hof', hrda⟩ := hbody
    rw [hof] at hof'
    simp only [Option.some.injEq] at hof'
    subst hof'
    refine ⟨v, by simp [valS, hb], ?_⟩
    have hdec := rdata_decode msg t (x.nxt + 10) x.rdlen v msg.size hrda (by omega) (Nat.le_refl _)
    simp only [Reader.dataAt, hdrOf, RecSpec.marker_rdataPos, RecSpec.marker_rdlen, cloneWithPos_eq hr, Cur.withPos, hdec]
  | opt =>
    rw [hb] at hbody
    simp only at hbody
    rw [hbody] at hof
    have : t.code ≠ TYPE_OPT := by cases t <;> decide
    rw [← hty, hbody] at this
    exact absurd rfl this
  | raw =>
    rw [hb] at hbody
    simp only at hbody
    rw [hof] at hbody
    exact absurd hbody.1 (by simp)

theorem filter_hdrOf {msg : Bytes} {xs : List RecSpec} {P : HdrRef → Bool} {Q : RecSpec → Bool}
    (h : ∀ x ∈ xs, P (hdrOf msg x) = Q x) : (xs.map (hdrOf msg)).filter P = (xs.filter Q).map (hdrOf msg) := by
  induction xs with
  | nil => rfl
  | cons a rest ih =>
    have ha := h a (List.mem_cons_self ..)
    have ih' := ih (fun x hx => h x (List.mem_cons_of_mem _ hx))
    simp only [List.map_cons, List.filter_cons, ha]
    split
    · simp [ih']
    · exact ih'

/-- **the header-level chain is the semantic chain** on well-formed records -/
theorem chain_semantic (msg : Bytes) (t : RType) (r : Reader) (hr : RInv msg r) (rclass : Nat) :
    ∀ (fuel : Nat) (c : Cur) (text : Bytes) (xs : List RecSpec), (∀ x ∈ xs, x.WF msg) → NameIs msg c text →
      match chainS t rclass fuel text xs with
      | some (text', S) => ∃ c', chain msg t r rclass fuel c (xs.map (hdrOf msg)) = some (c', S.map (hdrOf msg)) ∧
          NameIs msg c' text' ∧ ∀ x ∈ S, x ∈ xs ∧ x.rtype = t.code
      | none => chain msg t r rclass fuel c (xs.map (hdrOf msg)) = none := by
  intro fuel
  induction fuel with
  | zero => intro c text xs _ _; simp [chainS, chain]
  | succ fuel ih =>
    intro c text xs hwf hc
    have hfil := filter_hdrOf (msg := msg) (xs := xs) (P := isSel msg t c rclass) (Q := selS t text rclass)
      (fun x hx => isSel_hdrOf (hwf x hx) hc)
    unfold chainS chain
    simp only [hfil]
    by_cases hs : xs.filter (selS t text rclass) = []
    · simp only [hs, List.map_nil, ne_eq, not_true_eq_false, if_false]
      rw [removeFirst_map (hdrOf msg) (isCn msg c rclass) xs,
        removeFirst_congr (P := fun a => isCn msg c rclass (hdrOf msg a)) (Q := cnS text rclass)
          (fun x hx => isCn_hdrOf (hwf x hx) hc)]
      cases hrf : removeFirst (cnS text rclass) xs with
      | none => simp
      | some v =>
        obtain ⟨x, xs'⟩ := v
        obtain ⟨_, hPx, hmem, hrest⟩ := removeFirst_length hrf
        have hty : x.rtype = TYPE_CNAME := by
          simp only [cnS, Bool.and_eq_true, beq_iff_eq] at hPx
          exact hPx.1.2
        obtain ⟨text2, htg, hn2⟩ := cname_target hr (hwf x hmem) hty
        simp only [Option.map_some, htg]
        have := ih (r.nameRefAt (hdrOf msg x).2) text2 xs' (fun y hy => hwf y (hrest y hy)) hn2
        cases hcs : chainS t rclass fuel text2 xs' with
        | none => rw [hcs] at this; exact this
        | some w =>
          obtain ⟨text', S⟩ := w
          rw [hcs] at this
          obtain ⟨c', hch, hn', hS⟩ := this
          exact ⟨c', hch, hn', fun y hy => ⟨hrest y (hS y hy).1, (hS y hy).2⟩⟩
    · have hne : (xs.filter (selS t text rclass)).map (hdrOf msg) ≠ [] := by
        intro h; exact hs (List.map_eq_nil_iff.mp h)
      simp only [hs, hne, ne_eq, not_false_eq_true, if_true]
      refine ⟨c, rfl, hc, ?_⟩
      intro y hy
      obtain ⟨hm, hp⟩ := List.mem_filter.mp hy
      simp only [selS, Bool.and_eq_true, beq_iff_eq] at hp
      exact ⟨hm, hp.1.2⟩

theorem ttlOf_hdrOf (msg : Bytes) (S : List RecSpec) (start : Nat) :
    ttlOf start (S.map (hdrOf msg)) = S.foldl (fun a x => Nat.min a x.ttl) start := by
  induction S generalizing start with
  | nil => rfl
  | cons x xs ih => simp only [List.map_cons, ttlOf_cons, List.foldl_cons, hdrOf, RecSpec.marker_ttl]; exact ih _

theorem data_of_sel {msg : Bytes} {t : RType} {r : Reader} : ∀ (S : List RecSpec) (ds : List RData),
    (∀ x ∈ S, ∃ v, valS x = some v ∧ r.dataAt msg t (hdrOf msg x).2 = .ok v) →
    (S.map (hdrOf msg)).map (fun h => r.dataAt msg t h.2) = ds.map Res.ok → ds = S.filterMap valS
  | [], ds, _, h => by
    cases ds with
    | nil => rfl
    | cons a b => simp at h
  | x :: xs, ds, hall, h => by
    obtain ⟨v, hv, hd⟩ := hall x (List.mem_cons_self ..)
    cases ds with
    | nil => simp at h
    | cons a b =>
      simp only [List.map_cons, List.cons.injEq, hd, Res.ok.injEq] at h
      have := data_of_sel xs b (fun y hy => hall y (List.mem_cons_of_mem _ hy)) h.2
      simp only [List.filterMap_cons, hv, ← this, h.1]

end Rsdns.C06
