/-
  Rsdns.Lemmas.Chain — the CNAME-chain specification over the answer headers `from_msg` collected
  (`chain`), and the proof that `extract_rrset` is a filter, `extract_cname` removes the first matching
  CNAME, and the flattening loop computes `chain` (`flatten_refines`) — for arbitrary bytes, given that
  the comparisons and data decodes involved return verdicts / values.
-/
import Rsdns.Props.C06
import Rsdns.Spec.ChainSpec
set_option linter.unusedVariables false
namespace Rsdns.C06
open Rsdns Generated

/-! ## the CNAME-chain specification over the collected answer headers -/

/-- `NameRef::eq` answered "equal" -/
def eqOk (msg : Bytes) (a b : Cur) : Bool :=
  match nameRefEqQ msg a b with
  | .ok true => true
  | _ => false

/-- the record matches `(name, D, class)` -/
def isSel (msg : Bytes) (t : RType) (name : Cur) (rclass : Nat) (h : HdrRef) : Bool :=
  eqOk msg h.1 name && h.2.rtype == t.code && h.2.rclass == rclass

/-- the record is a CNAME of `name` in `class` -/
def isCn (msg : Bytes) (name : Cur) (rclass : Nat) (h : HdrRef) : Bool :=
  eqOk msg h.1 name && h.2.rtype == TYPE_CNAME && h.2.rclass == rclass

/-- the headers still available, in message order -/
def alive (hs : List (Option HdrRef)) : List HdrRef := hs.filterMap id

@[simp] theorem alive_nil : alive [] = [] := rfl
@[simp] theorem alive_none (hs : List (Option HdrRef)) : alive (none :: hs) = alive hs := rfl
@[simp] theorem alive_some (h : HdrRef) (hs : List (Option HdrRef)) : alive (some h :: hs) = h :: alive hs := rfl
theorem alive_append (a b : List (Option HdrRef)) : alive (a ++ b) = alive a ++ alive b := by
  simp [alive, List.filterMap_append]
theorem alive_map_some (hs : List HdrRef) : alive (hs.map some) = hs := by
  induction hs with
  | nil => rfl
  | cons h t ih => simp [ih]
theorem mem_alive {x : HdrRef} {hs : List (Option HdrRef)} : x ∈ alive hs ↔ some x ∈ hs := by
  simp [alive]

theorem removeFirst_length {α : Type} {P : α → Bool} : ∀ {hs : List α} {x : α} {r : List α},
    removeFirst P hs = some (x, r) → r.length + 1 = hs.length ∧ P x = true ∧ x ∈ hs ∧ ∀ y ∈ r, y ∈ hs
  | [], x, r, h => by simp [removeFirst] at h
  | a :: rest, x, r, h => by
    unfold removeFirst at h
    by_cases hp : P a = true
    · simp only [hp, if_true, Option.some.injEq, Prod.mk.injEq] at h
      obtain ⟨rfl, rfl⟩ := h
      exact ⟨rfl, hp, List.mem_cons_self .., fun y hy => List.mem_cons_of_mem _ hy⟩
    · simp only [hp, Bool.false_eq_true, if_false] at h
      cases hr : removeFirst P rest with
      | none => simp [hr] at h
      | some v =>
        obtain ⟨x', r'⟩ := v
        simp only [hr, Option.some.injEq, Prod.mk.injEq] at h
        obtain ⟨rfl, rfl⟩ := h
        obtain ⟨h1, h2, h3, h4⟩ := removeFirst_length hr
        refine ⟨by simp only [List.length_cons]; omega, h2, List.mem_cons_of_mem _ h3, ?_⟩
        intro y hy
        rcases List.mem_cons.mp hy with rfl | hy
        · exact List.mem_cons_self ..
        · exact List.mem_cons_of_mem _ (h4 y hy)

theorem removeFirst_map {α β : Type} (f : α → β) (P : β → Bool) : ∀ (xs : List α),
    removeFirst P (xs.map f) = (removeFirst (fun a => P (f a)) xs).map (fun v => (f v.1, v.2.map f))
  | [] => rfl
  | a :: rest => by
    simp only [List.map_cons, removeFirst]
    by_cases hp : P (f a) = true
    · simp [hp]
    · simp only [hp, Bool.false_eq_true, if_false]
      rw [removeFirst_map f P rest]
      cases removeFirst (fun a => P (f a)) rest with
      | none => rfl
      | some v => rfl

theorem removeFirst_congr {α : Type} {P Q : α → Bool} : ∀ {xs : List α}, (∀ x ∈ xs, P x = Q x) →
    removeFirst P xs = removeFirst Q xs
  | [], _ => rfl
  | a :: rest, h => by
    simp only [removeFirst]
    rw [h a (List.mem_cons_self ..), removeFirst_congr (fun x hx => h x (List.mem_cons_of_mem _ hx))]

/-- **the specification.**  From `name`, over the available answer headers `hs` (message order):
    if some record matches `(name, D, class)` the answer is `name` with all matching records, in order;
    otherwise the first CNAME of `name` is consumed and the chain continues at its target; with no
    such CNAME there is no answer.  `fuel` bounds the number of hops (each consumes a header). -/
def chain (msg : Bytes) (t : RType) (r : Reader) (rclass : Nat) : Nat → Cur → List HdrRef → Option (Cur × List HdrRef)
  | 0, _, _ => none
  | fuel + 1, name, hs =>
    let s := hs.filter (isSel msg t name rclass)
    if s ≠ [] then some (name, s)
    else
      match removeFirst (isCn msg name rclass) hs with
      | none => none
      | some (h, hs') => chain msg t r rclass fuel (r.nameRefAt h.2) hs'

/-- more fuel than headers changes nothing -/
theorem chain_fuel (msg : Bytes) (t : RType) (r : Reader) (rclass : Nat) :
    ∀ (f1 f2 : Nat) (name : Cur) (hs : List HdrRef), hs.length < f1 → hs.length < f2 →
      chain msg t r rclass f1 name hs = chain msg t r rclass f2 name hs
  | 0, _, _, _, h, _ => by omega
  | _, 0, _, _, _, h => by omega
  | f1 + 1, f2 + 1, name, hs, h1, h2 => by
    unfold chain
    simp only
    split
    · rfl
    · cases hr : removeFirst (isCn msg name rclass) hs with
      | none => rfl
      | some v =>
        obtain ⟨x, r'⟩ := v
        have := (removeFirst_length hr).1
        exact chain_fuel msg t r rclass f1 f2 _ r' (by omega) (by omega)

/-- the TTL of a set: the minimum, starting from `u32::MAX` -/
def ttlOf (start : Nat) (s : List HdrRef) : Nat := s.foldl (fun a h => Nat.min a h.2.ttl) start

/-- every comparison of an available header's owner with `name` returns a verdict -/
def CmpOK (msg : Bytes) (name : Cur) (hs : List (Option HdrRef)) : Prop :=
  ∀ h, some h ∈ hs → ∃ b, nameRefEqQ msg h.1 name = .ok b

/-- the data of every available header of type `D` decodes -/
def DataOK (msg : Bytes) (t : RType) (r : Reader) (hs : List (Option HdrRef)) : Prop :=
  ∀ h, some h ∈ hs → h.2.rtype = t.code → ∃ d, r.dataAt msg t h.2 = .ok d

theorem eqOk_of {msg : Bytes} {a b : Cur} {v : Bool} (h : nameRefEqQ msg a b = .ok v) : eqOk msg a b = v := by
  unfold eqOk; rw [h]; cases v <;> rfl

theorem ttlOf_cons (start : Nat) (h : HdrRef) (s : List HdrRef) : ttlOf start (h :: s) = ttlOf (Nat.min start h.2.ttl) s := rfl

/-- **one pass of `extract_rrset` is a filter**: it returns the data of exactly the matching available
    headers, in order, the minimum of their TTLs, and leaves exactly the others available -/
theorem extractRRSet_exact (msg : Bytes) (t : RType) (r : Reader) (name : Cur) (rclass : Nat)
    (hs : List (Option HdrRef)) (ttl : Nat) (rd : List RData) (out : List (Option HdrRef))
    (hc : CmpOK msg name hs) (hd : DataOK msg t r hs) :
    ∃ ds hs', extractRRSet msg t r name rclass hs ttl rd out =
        .ok (ttlOf ttl ((alive hs).filter (isSel msg t name rclass)), rd.reverse ++ ds, hs') ∧
      ((alive hs).filter (isSel msg t name rclass)).map (fun h => r.dataAt msg t h.2) = ds.map Res.ok ∧
      alive hs' = alive out.reverse ++ (alive hs).filter (fun h => !isSel msg t name rclass h) ∧
      (∀ x, some x ∈ hs' → some x ∈ out ∨ some x ∈ hs) := by
  induction hs generalizing ttl rd out with
  | nil =>
    refine ⟨[], out.reverse, by simp [extractRRSet, ttlOf], by simp, by simp, ?_⟩
    intro x hx; left; simpa using hx
  | cons o xs ih =>
    have hc' : CmpOK msg name xs := fun h hm => hc h (List.mem_cons_of_mem _ hm)
    have hd' : DataOK msg t r xs := fun h hm => hd h (List.mem_cons_of_mem _ hm)
    cases o with
    | none =>
      obtain ⟨ds, hs', he, hm, ha, hsub⟩ := ih ttl rd (none :: out) hc' hd'
      refine ⟨ds, hs', by simpa [extractRRSet] using he, by simpa using hm, ?_, ?_⟩
      · rw [ha]; simp [alive_append]
      · intro x hx
        rcases hsub x hx with h | h
        · left; simpa using h
        · right; exact List.mem_cons_of_mem _ h
    | some h =>
      obtain ⟨hn, m⟩ := h
      obtain ⟨eq, heq⟩ := hc (hn, m) (List.mem_cons_self ..)
      have hsel : isSel msg t name rclass (hn, m) = (eq && m.rtype == t.code && m.rclass == rclass) := by
        simp only [isSel, eqOk_of heq]
      by_cases hcond : (eq && m.rtype == t.code && m.rclass == rclass) = true
      · have hty : m.rtype = t.code := by
          simp only [Bool.and_eq_true, beq_iff_eq] at hcond
          exact hcond.1.2
        obtain ⟨d, hdat⟩ := hd (hn, m) (List.mem_cons_self ..) hty
        obtain ⟨ds, hs', he, hm, ha, hsub⟩ := ih (Nat.min ttl m.ttl) (d :: rd) (none :: out) hc' hd'
        refine ⟨d :: ds, hs', ?_, ?_, ?_, ?_⟩
        · simp only [extractRRSet, heq, hcond, if_true, hdat]
          rw [he]
          simp [alive_some, hsel, hcond, ttlOf_cons]
        · simp [alive_some, hsel, hcond, hdat]
          simpa using hm
        · rw [ha]; simp [alive_append, alive_some, hsel, hcond]
        · intro x hx
          rcases hsub x hx with h | h
          · left; simpa using h
          · right; exact List.mem_cons_of_mem _ h
      · have hcf : (eq && m.rtype == t.code && m.rclass == rclass) = false := by simpa using hcond
        obtain ⟨ds, hs', he, hm, ha, hsub⟩ := ih ttl rd (some (hn, m) :: out) hc' hd'
        refine ⟨ds, hs', ?_, ?_, ?_, ?_⟩
        · simp only [extractRRSet, heq, hcf, Bool.false_eq_true, if_false]
          rw [he]
          simp [alive_some, hsel, hcf]
        · simp [alive_some, hsel, hcf]
          simpa using hm
        · rw [ha]; simp [alive_append, alive_some, hsel, hcf]
        · intro x hx
          rcases hsub x hx with h | h
          · rcases List.mem_cons.mp h with h | h
            · right; rw [h]; exact List.mem_cons_self ..
            · left; exact h
          · right; exact List.mem_cons_of_mem _ h

/-- **`extract_cname` removes the first available CNAME of `name`** and continues at its target -/
theorem extractCname_exact (msg : Bytes) (r : Reader) (name : Cur) (rclass : Nat)
    (hs : List (Option HdrRef)) (out : List (Option HdrRef)) (hc : CmpOK msg name hs) :
    match removeFirst (isCn msg name rclass) (alive hs) with
    | none => extractCname msg r name rclass hs out = .ok none
    | some (h, rest) => ∃ hs'', extractCname msg r name rclass hs out = .ok (some (r.nameRefAt h.2, hs'')) ∧
        alive hs'' = alive out.reverse ++ rest ∧ (∀ x, some x ∈ hs'' → some x ∈ out ∨ some x ∈ hs) := by
  induction hs generalizing out with
  | nil => simp [removeFirst, extractCname]
  | cons o xs ih =>
    have hc' : CmpOK msg name xs := fun h hm => hc h (List.mem_cons_of_mem _ hm)
    cases o with
    | none =>
      have := ih (none :: out) hc'
      simp only [alive_none, extractCname]
      cases hr : removeFirst (isCn msg name rclass) (alive xs) with
      | none => rw [hr] at this; exact this
      | some v =>
        obtain ⟨h, rest⟩ := v
        rw [hr] at this
        obtain ⟨hs'', he, ha, hsub⟩ := this
        refine ⟨hs'', he, by rw [ha]; simp [alive_append], ?_⟩
        intro x hx
        rcases hsub x hx with h | h
        · left; simpa using h
        · right; exact List.mem_cons_of_mem _ h
    | some h =>
      obtain ⟨hn, m⟩ := h
      obtain ⟨eq, heq⟩ := hc (hn, m) (List.mem_cons_self ..)
      have hcn : isCn msg name rclass (hn, m) = (eq && m.rtype == TYPE_CNAME && m.rclass == rclass) := by
        simp only [isCn, eqOk_of heq]
      by_cases hcond : (eq && m.rtype == TYPE_CNAME && m.rclass == rclass) = true
      · simp only [alive_some, removeFirst, hcn, hcond, if_true, extractCname, heq]
        refine ⟨_, rfl, by simp [alive_append], ?_⟩
        intro x hx
        rcases List.mem_append.mp hx with h | h
        · left; simpa using h
        · rcases List.mem_cons.mp h with h | h
          · cases h
          · right; exact List.mem_cons_of_mem _ h
      · have hcf : (eq && m.rtype == TYPE_CNAME && m.rclass == rclass) = false := by simpa using hcond
        have := ih (some (hn, m) :: out) hc'
        simp only [alive_some, removeFirst, hcn, hcf, Bool.false_eq_true, if_false, extractCname, heq]
        cases hr : removeFirst (isCn msg name rclass) (alive xs) with
        | none => rw [hr] at this; simpa using this
        | some v =>
          obtain ⟨h, rest⟩ := v
          rw [hr] at this
          obtain ⟨hs'', he, ha, hsub⟩ := this
          refine ⟨hs'', he, by rw [ha]; simp [alive_append], ?_⟩
          intro x hx
          rcases hsub x hx with h | h
          · rcases List.mem_cons.mp h with h | h
            · right; rw [h]; exact List.mem_cons_self ..
            · left; exact h
          · right; exact List.mem_cons_of_mem _ h

/-- **the flattening loop computes the chain specification.**  `N` is any set of names that contains
    the start and every CNAME target, all of whose comparisons with header owners return a verdict;
    the data of every header of type `D` decodes.  Then `from_msg`'s loop returns exactly what `chain`
    specifies — the final name, the matching records in message order (as decoded data), the minimum
    TTL — and `NoAnswer` exactly when the specification has no answer.  In particular the fuel-exhausted
    branch of the loop is never taken. -/
theorem flatten_refines (msg : Bytes) (t : RType) (r : Reader) (rclass : Nat) (hs0 : List (Option HdrRef))
    (N : Cur → Prop)
    (hN : ∀ n, N n → CmpOK msg n hs0)
    (hNs : ∀ n h, N n → some h ∈ hs0 → h.2.rtype = TYPE_CNAME → N (r.nameRefAt h.2))
    (hD : DataOK msg t r hs0) :
    ∀ (fuel : Nat) (name : Cur) (hs : List (Option HdrRef)) (rounds : Nat), N name →
      (∀ x, some x ∈ hs → some x ∈ hs0) → (alive hs).length < fuel →
      match chain msg t r rclass fuel name (alive hs) with
      | some (n', S) => ∃ ds rounds', flattenLoop msg t r rclass fuel name hs rounds =
            .ok (n', ttlOf 4294967295 S, ds, rounds') ∧ S.map (fun h => r.dataAt msg t h.2) = ds.map Res.ok
      | none => flattenLoop msg t r rclass fuel name hs rounds = .err .noAnswer := by
  intro fuel
  induction fuel with
  | zero => intro name hs rounds _ _ hlt; omega
  | succ fuel ih =>
    intro name hs rounds hn hsub hlt
    have hc : CmpOK msg name hs := fun h hm => hN name hn h (hsub h hm)
    have hd : DataOK msg t r hs := fun h hm => hD h (hsub h hm)
    obtain ⟨ds, hs', he, hm, ha, hsub'⟩ := extractRRSet_exact msg t r name rclass hs 4294967295 [] [] hc hd
    have hlen : ds.length = ((alive hs).filter (isSel msg t name rclass)).length := by
      have := congrArg List.length hm
      simpa using this.symm
    unfold chain flattenLoop
    simp only [he, List.reverse_nil, List.nil_append]
    by_cases hsel : (alive hs).filter (isSel msg t name rclass) = []
    · have hds : ds = [] := by
        rw [hsel] at hlen; simpa using hlen
      have hne : ¬ ((alive hs).filter (isSel msg t name rclass) ≠ []) := by simp [hsel]
      simp only [hne, if_false, hds, List.isEmpty_nil, Bool.not_true, Bool.false_eq_true]
      -- nothing selected: the header list is unchanged as far as available headers go
      have ha' : alive hs' = alive hs := by
        rw [ha]
        simp only [List.reverse_nil, alive_nil, List.nil_append]
        apply List.filter_eq_self.mpr
        intro x hx
        have : isSel msg t name rclass x = false := by
          cases hb : isSel msg t name rclass x with
          | false => rfl
          | true =>
            have : x ∈ (alive hs).filter (isSel msg t name rclass) := List.mem_filter.mpr ⟨hx, hb⟩
            rw [hsel] at this; cases this
        simp [this]
      have hsub2 : ∀ x, some x ∈ hs' → some x ∈ hs := by
        intro x hx
        rcases hsub' x hx with h | h
        · cases h
        · exact h
      have hc' : CmpOK msg name hs' := fun h hm => hc h (hsub2 h hm)
      have hcn := extractCname_exact msg r name rclass hs' [] hc'
      rw [ha'] at hcn
      cases hr : removeFirst (isCn msg name rclass) (alive hs) with
      | none =>
        rw [hr] at hcn
        simp only at hcn ⊢
        rw [hcn]
      | some v =>
        obtain ⟨h, rest⟩ := v
        rw [hr] at hcn
        obtain ⟨hs'', hec, hal, hsub3⟩ := hcn
        simp only [hec]
        obtain ⟨hl1, hPx, hmem, hrest⟩ := removeFirst_length hr
        have hcnty : h.2.rtype = TYPE_CNAME := by
          simp only [isCn, Bool.and_eq_true, beq_iff_eq] at hPx
          exact hPx.1.2
        have hal' : alive hs'' = rest := by simpa using hal
        have hsub4 : ∀ x, some x ∈ hs'' → some x ∈ hs0 := by
          intro x hx
          rcases hsub3 x hx with h | h
          · cases h
          · exact hsub x (hsub2 x h)
        have := ih (r.nameRefAt h.2) hs'' (rounds + 1) (hNs name h hn (hsub h (mem_alive.mp hmem)) hcnty) hsub4
          (by rw [hal']; omega)
        rw [hal'] at this
        exact this
    · have hne : (alive hs).filter (isSel msg t name rclass) ≠ [] := hsel
      have hdne : ds.isEmpty = false := by
        cases ds with
        | nil => simp at hlen; exact absurd (List.eq_nil_of_length_eq_zero hlen.symm) hsel
        | cons a b => rfl
      simp only [hne, ne_eq, not_false_eq_true, if_true, hdne, Bool.not_false]
      exact ⟨ds, rounds + 1, rfl, hm⟩

end Rsdns.C06
