/-
  Rsdns.Lemmas.Counters — the `SectionTracker` counters stay sane (`read ≤ total ≤ 65535`) under every
  tracker operation the reader performs on a section that has records left; `next_section` names only
  such sections.  This is what rules out the checked-arithmetic panics (`total - read`, `read += 1`).
-/
import Rsdns.Lemmas.Tracker
set_option linter.unusedVariables false
namespace Rsdns
open Generated Spec

/-! counters -/
structure CSane (t : Tracker) : Prop where
  q1 : t.qd.read ≤ t.qd.total
  q2 : t.qd.total ≤ 65535
  s1 : ∀ j, (t.sec j).read ≤ (t.sec j).total
  s2 : ∀ j, j < 3 → (t.sec j).total ≤ 65535

theorem CSane.congr {t t' : Tracker} (h : CSane t) (hs : t'.sec = t.sec) (hq : t'.qd = t.qd) : CSane t' :=
  ⟨by rw [hq]; exact h.q1, by rw [hq]; exact h.q2, by rw [hs]; exact h.s1, by rw [hs]; exact h.s2⟩

theorem CSane.left_q {t : Tracker} (h : CSane t) : t.questionsLeft = .ok (t.qd.total - t.qd.read) := by
  unfold Tracker.questionsLeft Counts.left
  have := h.q1
  have hn : ¬ t.qd.read > t.qd.total := by omega
  simp only [hn, if_false]

theorem CSane.left_s {t : Tracker} (h : CSane t) (s : Nat) :
    t.recordsLeftIn s = .ok ((t.sec s).total - (t.sec s).read) := by
  unfold Tracker.recordsLeftIn Counts.left
  have := h.s1 s
  have hn : ¬ (t.sec s).read > (t.sec s).total := by omega
  simp only [hn, if_false]

theorem CSane.left_all {t : Tracker} (h : CSane t) : ∃ n, t.recordsLeft = .ok n := by
  have h0 := h.left_s 0
  have h1 := h.left_s 1
  have h2 := h.left_s 2
  unfold Tracker.recordsLeftIn at h0 h1 h2
  unfold Tracker.recordsLeft
  rw [h0, h1, h2]
  exact ⟨_, rfl⟩

theorem CSane.questionRead {t : Tracker} (h : CSane t) (hlt : t.qd.read < t.qd.total) (pos : Nat) :
    ∃ t', t.questionRead pos = .ok t' ∧ CSane t' := by
  have h2 := h.q2
  rw [C09.questionRead_eq t pos (by omega)]
  refine ⟨_, rfl, ?_⟩
  have hb : CSane (C09.bumpQ t) := ⟨by simp only [C09.bumpQ]; omega, h.q2, h.s1, h.s2⟩
  split
  · exact hb.congr (C09.fwdFill_sec _ _ _ _).1 (C09.fwdFill_sec _ _ _ _).2
  · exact hb

theorem CSane.bump {t : Tracker} (h : CSane t) (s : Nat) (hs : s < 3) (hlt : (t.sec s).read < (t.sec s).total) :
    CSane (C09.bump t s) := by
  refine ⟨h.q1, h.q2, ?_, ?_⟩
  · intro j
    simp only [C09.bump, upd]
    split
    · rename_i hjs; subst hjs; simp only; omega
    · exact h.s1 j
  · intro j hj
    rw [C09.bump_total]
    exact h.s2 j hj

theorem CSane.sectionRead {t : Tracker} (h : CSane t) (s : Nat) (hs : s < 3) (hlt : (t.sec s).read < (t.sec s).total)
    (pos : Nat) : ∃ t', t.sectionRead s pos = .ok t' ∧ CSane t' := by
  have h2 := h.s2 s hs
  rw [C09.sectionRead_eq t s pos (by omega)]
  refine ⟨_, rfl, ?_⟩
  have hb := h.bump s hs hlt
  split
  · exact hb.congr (C09.fwdFill_sec _ _ _ _).1 (C09.fwdFill_sec _ _ _ _).2
  · exact hb

theorem CSane.seek {t : Tracker} (h : CSane t) (s : Nat) : CSane (t.seek s) := by
  refine ⟨h.q1, h.q2, ?_, ?_⟩
  · intro j
    by_cases hj : j < 3
    · rw [C09.seek_sec t s j hj]
      split <;> simp
    · simp only [Tracker.seek, hj, if_false]
      exact h.s1 j
  · intro j hj
    rw [C09.seek_sec t s j hj]
    split <;> exact h.s2 j hj

/-- `next_section` only ever names a section that has records left, and leaves the counters alone -/
theorem nextSection_facts (t : Tracker) (pos : Nat) :
    match t.nextSection pos with
    | (some s, t') => s < 3 ∧ (t.sec s).read < (t.sec s).total ∧ t'.sec = t.sec ∧ t'.qd = t.qd
    | (none, t') => t' = t := by
  by_cases h0 : (t.sec 0).read < (t.sec 0).total
  · rw [C09.nextSection_eq0 t pos h0]
    exact ⟨by omega, h0, (C09.markFirst_sec t pos 0).1, (C09.markFirst_sec t pos 0).2⟩
  · by_cases h1 : (t.sec 1).read < (t.sec 1).total
    · rw [C09.nextSection_eq1 t pos h0 h1]
      have a := C09.backFill_sec (C09.markFirst t pos 1) pos 1
      have b := C09.markFirst_sec t pos 1
      exact ⟨by omega, h1, by rw [a.1, b.1], by rw [a.2, b.2]⟩
    · by_cases h2 : (t.sec 2).read < (t.sec 2).total
      · rw [C09.nextSection_eq2 t pos h0 h1 h2]
        have a := C09.backFill_sec (C09.markFirst t pos 2) pos 2
        have b := C09.markFirst_sec t pos 2
        exact ⟨by omega, h2, by rw [a.1, b.1], by rw [a.2, b.2]⟩
      · rw [Tracker.nextSection, Tracker.nextSectionFrom]
        simp only [Nat.reduceAdd, Nat.sub_self, if_neg h0]
        rw [Tracker.nextSectionFrom]
        simp only [Nat.reduceAdd, Nat.reduceSub, if_neg h1]
        rw [Tracker.nextSectionFrom]
        simp only [Nat.reduceAdd, Nat.reduceSub, if_neg h2]
        rw [Tracker.nextSectionFrom]

end Rsdns
