import Lean.Meta.Tactic.Simp.RegisterCommand
/-
  Rsdns.Lemmas.GuardAttr — the simp set `guard_eq`: closed forms of the decision expressions regenerated
  from the client sources (see `Rsdns.Lemmas.Guards`).
-/
register_simp_attr guard_eq

/-- closes `generated expression = closed form` goals however the source spells the expression: by
    computation, by `simp`, by `grind`, or by `simp` followed by linear arithmetic — so that `b != a` for
    `a != b`, `size <= len` for `len >= size`, `!(a < b)` for `a >= b` or reordered conjuncts do not stop
    the development from checking, while a different function does -/
macro "guard_closed" : tactic =>
  `(tactic| first
    | rfl
    | (simp; done)
    | grind
    | (simp <;> omega))
