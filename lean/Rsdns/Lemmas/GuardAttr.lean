import Lean.Meta.Tactic.Simp.RegisterCommand
/-
  Rsdns.Lemmas.GuardAttr — the simp set `guard_eq`: closed forms of the decision expressions regenerated
  from the client sources (see `Rsdns.Lemmas.Guards`).
-/
register_simp_attr guard_eq
