/-
  Rsdns.Lemmas.Bits — what the *generated* bit-level functions compute, for all values.
  A changed mask, shift or literal in the Rust source changes `Rsdns.Generated` and breaks these.
-/
import Rsdns.Generated

namespace Rsdns.Generated

theorem is_length_iff : ∀ b : Nat, b < 256 → is_length b = decide (b < 64) := by
  decide +kernel

theorem is_pointer_iff : ∀ b : Nat, b < 256 → is_pointer b = decide (192 ≤ b) := by
  decide +kernel

theorem pointer_to_offset_eq (o1 o2 : Nat) (h1 : o1 < 256) (h2 : o2 < 256) :
    pointer_to_offset o1 o2 = (o1 % 64) * 256 + o2 := by
  unfold pointer_to_offset LENGTH_MASK
  have e1 : o1 &&& 63 = o1 % 64 := Nat.and_two_pow_sub_one_eq_mod o1 6
  rw [e1, Nat.shiftLeft_eq]
  have hlt : o1 % 64 * 2 ^ 8 < 65536 := by omega
  rw [Nat.mod_eq_of_lt hlt]
  have := Nat.two_pow_add_eq_or_of_lt (i := 8) (b := o2) (by omega) (o1 % 64)
  rw [Nat.mul_comm (o1 % 64) (2 ^ 8), ← this]

theorem label_char_ok_iff : ∀ b : Nat, b < 256 → label_char_ok b =
    ((decide (48 ≤ b) && decide (b ≤ 57)) || (decide (65 ≤ b) && decide (b ≤ 90)) ||
      (decide (97 ≤ b) && decide (b ≤ 122)) || b == 45 || b == 95) := by
  decide +kernel

theorem label_char_ok_ascii : ∀ b : Nat, b < 256 → label_char_ok b = true → b < 128 := by
  decide +kernel

theorem label_char_ok_not_dot : label_char_ok 46 = false := by decide

end Rsdns.Generated
