/-
  Rsdns.Lemmas.Bits — what the *generated* bit-level functions compute, for all values.
  A changed mask, shift or literal in the Rust source changes `Rsdns.Generated` and breaks these.
-/
import Rsdns.Generated

namespace Rsdns.Generated

theorem is_length_iff : ∀ b : Nat, b < 256 → is_length b = decide (b < 64) := by
  decide +kernel

theorem is_pointer_iff : ∀ b : Nat, b < 256 → is_pointer b = decide (192 ≤ b) := by
  decide +kernel

theorem pointer_to_offset_eq (o1 o2 : Nat) (h1 : o1 < 256) (h2 : o2 < 256) :
    pointer_to_offset o1 o2 = (o1 % 64) * 256 + o2 := by
  unfold pointer_to_offset LENGTH_MASK
  have e1 : o1 &&& 63 = o1 % 64 := Nat.and_two_pow_sub_one_eq_mod o1 6
  rw [e1, Nat.shiftLeft_eq]
  have hlt : o1 % 64 * 2 ^ 8 < 65536 := by omega
  rw [Nat.mod_eq_of_lt hlt]
  have := Nat.two_pow_add_eq_or_of_lt (i := 8) (b := o2) (by omega) (o1 % 64)
  rw [Nat.mul_comm (o1 % 64) (2 ^ 8), ← this]

theorem label_char_ok_iff : ∀ b : Nat, b < 256 → label_char_ok b =
    ((decide (48 ≤ b) && decide (b ≤ 57)) || (decide (65 ≤ b) && decide (b ≤ 90)) ||
      (decide (97 ≤ b) && decide (b ≤ 122)) || b == 45 || b == 95) := by
  decide +kernel

theorem label_char_ok_ascii : ∀ b : Nat, b < 256 → label_char_ok b = true → b < 128 := by
  decide +kernel

theorem label_char_ok_not_dot : label_char_ok 46 = false := by decide


/-! ### header flags, OPT TTL fields, extended RCODE (RFC 1035 §4.1.1, RFC 6891 §6.1.3) -/

theorem and_two_pow_eq (x k : Nat) : x &&& 2 ^ k = if x.testBit k then 2 ^ k else 0 := by
  apply Nat.eq_of_testBit_eq
  intro j
  rw [Nat.testBit_and, Nat.testBit_two_pow]
  by_cases hx : x.testBit k
  · simp only [hx, if_true, Nat.testBit_two_pow]
    by_cases hj : k = j
    · subst hj; simp [hx]
    · simp [hj]
  · simp only [hx, Bool.false_eq_true, if_false, Nat.zero_testBit]
    by_cases hj : k = j
    · subst hj; simp [hx]
    · simp [hj]

/-- `get_bit!(bits, k)` is bit `k` -/
theorem get_bit_eq (x k : Nat) : ((x &&& 2 ^ k) != 0) = x.testBit k := by
  rw [and_two_pow_eq]
  by_cases hx : x.testBit k
  · have : 2 ^ k ≠ 0 := Nat.ne_of_gt (Nat.two_pow_pos k)
    simp [hx, this]
  · simp [hx]

/-- the shifted spelling of a bit test: `(x >> k) & 1 == 1` -/
theorem get_bit_shift_eq (x k : Nat) : ((x >>> k &&& 1) == 1) = x.testBit k := by
  have h1 : x >>> k &&& 1 = (x >>> k) % 2 := Nat.and_two_pow_sub_one_eq_mod _ 1
  rw [h1]
  unfold Nat.testBit
  rw [Nat.and_comm, h1]
  have := Nat.mod_two_eq_zero_or_one (x >>> k)
  rcases this with h | h <;> simp [h]

/-- `(x >> k) & 1 != 0` -/
theorem get_bit_shift_ne (x k : Nat) : ((x >>> k &&& 1) != 0) = x.testBit k := by
  unfold Nat.testBit
  rw [Nat.and_comm]

/-- `x & (1 << k) == (1 << k)` -/
theorem get_bit_mask_eq (x k : Nat) : ((x &&& 2 ^ k) == 2 ^ k) = x.testBit k := by
  rw [and_two_pow_eq]
  by_cases hx : x.testBit k
  · simp [hx]
  · have : 2 ^ k ≠ 0 := Nat.ne_of_gt (Nat.two_pow_pos k)
    simp [hx, this.symm]

/-- any of the usual spellings of "bit `k` of `x`" (the getters may be rewritten harmlessly) -/
macro "bit_test" k:num : tactic =>
  `(tactic| first | exact get_bit_eq _ $k | exact get_bit_shift_eq _ $k | exact get_bit_shift_ne _ $k | exact get_bit_mask_eq _ $k)

theorem flags_qr_eq (bits : Nat) : flags_qr bits = bits.testBit 15 := by
  unfold flags_qr; bit_test 15
theorem flags_aa_eq (bits : Nat) : flags_aa bits = bits.testBit 10 := by
  unfold flags_aa; bit_test 10
theorem flags_tc_eq (bits : Nat) : flags_tc bits = bits.testBit 9 := by
  unfold flags_tc; bit_test 9
theorem flags_rd_eq (bits : Nat) : flags_rd bits = bits.testBit 8 := by
  unfold flags_rd; bit_test 8
theorem flags_ra_eq (bits : Nat) : flags_ra bits = bits.testBit 7 := by
  unfold flags_ra; bit_test 7

/-- RCODE = the low four bits -/
theorem flags_rcode_eq (bits : Nat) : flags_rcode bits = bits % 16 := by
  unfold flags_rcode
  exact Nat.and_two_pow_sub_one_eq_mod bits 4

/-- OPCODE = bits 11..14 -/
theorem flags_opcode_eq (bits : Nat) (h : bits < 65536) : flags_opcode bits = bits / 2048 % 16 := by
  unfold flags_opcode
  have e : bits &&& 30720 = (bits >>> 11 &&& 15) <<< 11 := by
    apply Nat.eq_of_testBit_eq
    intro j
    simp only [Nat.testBit_and, Nat.testBit_shiftLeft, Nat.testBit_shiftRight]
    have h15 : (15 : Nat) = 2 ^ 4 - 1 := by decide
    have h30720 : (30720 : Nat) = (2 ^ 4 - 1) <<< 11 := by decide
    rw [h30720, h15, Nat.testBit_shiftLeft, Nat.testBit_two_pow_sub_one]
    by_cases hj : 11 ≤ j
    · have : 11 + (j - 11) = j := by omega
      simp [hj, this]
    · simp [hj]
  rw [e, Nat.shiftLeft_shiftRight]
  have : bits >>> 11 &&& 15 = bits >>> 11 % 16 := Nat.and_two_pow_sub_one_eq_mod _ 4
  rw [this, Nat.shiftRight_eq_div_pow]
  omega

/-- the 12-bit extended RCODE: low four bits from the header, upper eight from the OPT TTL -/
theorem rcode_extended_eq (base ext : Nat) (he : ext < 256) :
    rcode_extended base ext = ext * 16 + base % 16 := by
  unfold rcode_extended
  have e1 : base &&& 15 = base % 16 := Nat.and_two_pow_sub_one_eq_mod base 4
  rw [e1, Nat.shiftLeft_eq]
  have hlt : ext * 2 ^ 4 < 65536 := by omega
  rw [Nat.mod_eq_of_lt hlt, Nat.or_comm]
  have := Nat.two_pow_add_eq_or_of_lt (i := 4) (b := base % 16) (Nat.mod_lt _ (by decide)) ext
  rw [Nat.mul_comm ext (2 ^ 4), ← this]

theorem rcode_extended_zero_iff (base ext : Nat) (he : ext < 256) :
    rcode_extended base ext = 0 ↔ ext = 0 ∧ base % 16 = 0 := by
  rw [rcode_extended_eq base ext he]; omega

/-- OPT TTL layout: `ext(8) | version(8) | flags(16)` -/
theorem opt_fields_eq (rclass ttl : Nat) (h : ttl < 4294967296) :
    opt_udp_payload_size rclass ttl = rclass ∧ opt_rcode_extension rclass ttl = ttl / 16777216 ∧
      opt_version rclass ttl = ttl / 65536 % 256 ∧ opt_flags rclass ttl = ttl % 65536 := by
  refine ⟨rfl, ?_, ?_, ?_⟩
  · unfold opt_rcode_extension
    have e : ttl &&& 4278190080 = (ttl >>> 24 &&& 255) <<< 24 := by
      apply Nat.eq_of_testBit_eq
      intro j
      simp only [Nat.testBit_and, Nat.testBit_shiftLeft, Nat.testBit_shiftRight]
      have h255 : (255 : Nat) = 2 ^ 8 - 1 := by decide
      have hm : (4278190080 : Nat) = (2 ^ 8 - 1) <<< 24 := by decide
      rw [hm, h255, Nat.testBit_shiftLeft, Nat.testBit_two_pow_sub_one]
      by_cases hj : 24 ≤ j
      · have : 24 + (j - 24) = j := by omega
        simp [hj, this]
      · simp [hj]
    rw [e, Nat.shiftLeft_shiftRight]
    have : ttl >>> 24 &&& 255 = ttl >>> 24 % 256 := Nat.and_two_pow_sub_one_eq_mod _ 8
    rw [this, Nat.shiftRight_eq_div_pow]
    omega
  · unfold opt_version
    have e : ttl &&& 16711680 = (ttl >>> 16 &&& 255) <<< 16 := by
      apply Nat.eq_of_testBit_eq
      intro j
      simp only [Nat.testBit_and, Nat.testBit_shiftLeft, Nat.testBit_shiftRight]
      have h255 : (255 : Nat) = 2 ^ 8 - 1 := by decide
      have hm : (16711680 : Nat) = (2 ^ 8 - 1) <<< 16 := by decide
      rw [hm, h255, Nat.testBit_shiftLeft, Nat.testBit_two_pow_sub_one]
      by_cases hj : 16 ≤ j
      · have : 16 + (j - 16) = j := by omega
        simp [hj, this]
      · simp [hj]
    rw [e, Nat.shiftLeft_shiftRight]
    have : ttl >>> 16 &&& 255 = ttl >>> 16 % 256 := Nat.and_two_pow_sub_one_eq_mod _ 8
    rw [this, Nat.shiftRight_eq_div_pow]
    omega
  · unfold opt_flags
    have : ttl &&& 65535 = ttl % 65536 := Nat.and_two_pow_sub_one_eq_mod ttl 16
    rw [this]
    omega

end Rsdns.Generated
