/-
  Rsdns.Lemmas.Pass — positions of the byte-level reader are those of the linear pass: inversion
  lemmas for `skip_rr`, `raw_marker_impl`, the name step of the header calls and the data calls.
-/
import Rsdns.Props.C08
import Rsdns.Props.C04
import Rsdns.Lemmas.Tracker
set_option linter.unusedVariables false
namespace Rsdns.C09
open Rsdns Generated

theorem rBe_inv (msg : Bytes) (c : Cur) (n : Nat) (v : Nat) (c' : Cur) (h : Cur.rBe msg c n = .ok (v, c')) :
    v = Cur.beNat msg c.pos n ∧ c' = { c with pos := c.pos + n } ∧ c.pos + n ≤ c.lim := by
  unfold Cur.rBe Cur.len at h
  split at h
  · split at h
    · simp only [Res.ok.injEq, Prod.mk.injEq] at h
      exact ⟨h.1.symm, h.2.symm, by omega⟩
    · simp at h
  · simp at h

theorem skip_inv (c : Cur) (n : Nat) (c' : Cur) (h : Cur.skip c n = .ok c') :
    c' = { c with pos := c.pos + n } ∧ c.pos + n ≤ c.lim ∨ (c' = { c with pos := c.pos + n } ∧ n = 0) := by
  unfold Cur.skip Cur.len at h
  split at h
  · simp only [Res.ok.injEq] at h
    rename_i hl
    by_cases hn : n = 0
    · right; exact ⟨h.symm, hn⟩
    · left; exact ⟨h.symm, by omega⟩
  · simp at h

/-- what a successful `skip_rr` did: the owner name was skipped (resuming at `c1`), ten fixed bytes
    follow, the RDLENGTH at offset 8 of them says how far the record reaches -/
theorem skipRr_inv (msg : Bytes) (c c' : Cur) (h : skipRr msg c = (.ok (), c')) :
    ∃ n c1, skipName msg c = .ok (n, c1) ∧ c1.pos + 10 ≤ c1.lim ∧
      c' = { c1 with pos := c1.pos + 10 + Cur.beNat msg (c1.pos + 8) 2 } := by
  unfold skipRr at h
  simp only [bind, CurM.bind, CurM.skipName, CurM.lift] at h
  cases hs : skipName msg c with
  | ok v =>
    obtain ⟨n, c1⟩ := v
    simp only [hs] at h
    refine ⟨n, c1, rfl, ?_⟩
    simp only [CurM.skip, CurM.lift0] at h
    cases h8 : Cur.skip c1 8 with
    | ok c2 =>
      simp only [h8] at h
      simp only [CurM.u16be, CurM.lift, Cur.u16be] at h
      cases hr : Cur.rBe msg c2 2 with
      | ok vr =>
        obtain ⟨rd, c3⟩ := vr
        simp only [hr] at h
        obtain ⟨hv, hc3, hle⟩ := rBe_inv msg c2 2 rd c3 hr
        cases hk : Cur.skip c3 rd with
        | ok c4 =>
          simp only [hk, Prod.mk.injEq, true_and] at h
          have e2 : c2 = { c1 with pos := c1.pos + 8 } := by
            rcases skip_inv c1 8 c2 h8 with ⟨e, _⟩ | ⟨e, hz⟩
            · exact e
            · omega
          have e4 : c4 = { c3 with pos := c3.pos + rd } := by
            rcases skip_inv c3 rd c4 hk with ⟨e, _⟩ | ⟨e, _⟩ <;> exact e
          subst e2
          subst hc3
          subst e4
          subst hv
          simp only at hle h ⊢
          refine ⟨by omega, ?_⟩
          rw [← h]
        | err e => simp [hk] at h
        | panic p => simp [hk] at h
        | ub => simp [hk] at h
      | err e => simp [hr] at h
      | panic p => simp [hr] at h
      | ub => simp [hr] at h
    | err e => simp [h8] at h
    | panic p => simp [h8] at h
    | ub => simp [h8] at h
  | err e => simp [hs] at h
  | panic p => simp [hs] at h
  | ub => simp [hs] at h

theorem u16_inv (msg : Bytes) (c : Cur) (v : Nat) (c' : Cur) (h : CurM.u16be msg c = (.ok v, c')) :
    v = Cur.beNat msg c.pos 2 ∧ c' = { c with pos := c.pos + 2 } := by
  simp only [CurM.u16be, CurM.lift, Cur.u16be] at h
  cases hr : Cur.rBe msg c 2 with
  | ok vr =>
    obtain ⟨a, b⟩ := vr
    simp only [hr, Prod.mk.injEq, Res.ok.injEq] at h
    obtain ⟨h1, h2, _⟩ := rBe_inv msg c 2 a b hr
    exact ⟨by rw [← h.1, h1], by rw [← h.2, h2]⟩
  | err e => simp [hr] at h
  | panic p => simp [hr] at h
  | ub => simp [hr] at h

theorem u32_inv (msg : Bytes) (c : Cur) (v : Nat) (c' : Cur) (h : CurM.u32be msg c = (.ok v, c')) :
    v = Cur.beNat msg c.pos 4 ∧ c' = { c with pos := c.pos + 4 } := by
  simp only [CurM.u32be, CurM.lift, Cur.u32be] at h
  cases hr : Cur.rBe msg c 4 with
  | ok vr =>
    obtain ⟨a, b⟩ := vr
    simp only [hr, Prod.mk.injEq, Res.ok.injEq] at h
    obtain ⟨h1, h2, _⟩ := rBe_inv msg c 4 a b hr
    exact ⟨by rw [← h.1, h1], by rw [← h.2, h2]⟩
  | err e => simp [hr] at h
  | panic p => simp [hr] at h
  | ub => simp [hr] at h

/-- `raw_marker_impl` from a cursor at `c1`: ten bytes, RDLENGTH is the last two -/
theorem rawMarker_inv (msg : Bytes) (r : Reader) (pos s : Nat) (m : Marker) (r' : Reader)
    (h : r.rawMarker msg pos s = (.ok m, r')) :
    m.offset = pos ∧ m.typeOffset = r.cur.pos ∧ m.section_ = s ∧ m.rdlen = Cur.beNat msg (r.cur.pos + 8) 2 ∧
      r' = { r with cur := { r.cur with pos := r.cur.pos + 10 } } := by
  unfold Reader.rawMarker Reader.onCur at h
  simp only [bind, CurM.bind] at h
  cases h1 : CurM.u16be msg r.cur with
  | mk res1 c1 =>
    cases res1 with
    | ok v1 =>
      obtain ⟨_, e1⟩ := u16_inv msg r.cur v1 c1 h1
      simp only [h1] at h
      cases h2 : CurM.u16be msg c1 with
      | mk res2 c2 =>
        cases res2 with
        | ok v2 =>
          obtain ⟨_, e2⟩ := u16_inv msg c1 v2 c2 h2
          simp only [h2] at h
          cases h3 : CurM.u32be msg c2 with
          | mk res3 c3 =>
            cases res3 with
            | ok v3 =>
              obtain ⟨_, e3⟩ := u32_inv msg c2 v3 c3 h3
              simp only [h3] at h
              cases h4 : CurM.u16be msg c3 with
              | mk res4 c4 =>
                cases res4 with
                | ok v4 =>
                  obtain ⟨ev4, e4⟩ := u16_inv msg c3 v4 c4 h4
                  simp only [h4, pure, CurM.pure, Prod.mk.injEq, Res.ok.injEq] at h
                  obtain ⟨hm, hr'⟩ := h
                  subst hm
                  subst e1; subst e2; subst e3; subst e4
                  refine ⟨rfl, rfl, rfl, ?_, ?_⟩
                  · simp only [ev4, Nat.add_assoc]
                  · rw [← hr']
                | err e => simp [h4] at h
                | panic p => simp [h4] at h
                | ub => simp [h4] at h
            | err e => simp [h3] at h
            | panic p => simp [h3] at h
            | ub => simp [h3] at h
        | err e => simp [h2] at h
        | panic p => simp [h2] at h
        | ub => simp [h2] at h
    | err e => simp [h1] at h
    | panic p => simp [h1] at h
    | ub => simp [h1] at h

/-- the name step of a record-header call resumes where `skip_domain_name` resumes -/
theorem headerName_resumes (msg : Bytes) (k : HKind) (r r2 : Reader) (hn : HName)
    (h : (match k with
      | .marker => match r.onCur (CurM.skipName msg) with
        | (.ok _, r2) => (Res.ok HName.none, r2)
        | (.err e, r2) => (.err e, r2)
        | (.panic p, r2) => (.panic p, r2)
        | (.ub, r2) => (.ub, r2)
      | .ref => match r.onCur (CurM.skipName msg) with
        | (.ok _, r2) => (.ok (HName.ref r.cur), r2)
        | (.err e, r2) => (.err e, r2)
        | (.panic p, r2) => (.panic p, r2)
        | (.ub, r2) => (.ub, r2)
      | .owned nk => match r.onCur (CurM.readName nk msg) with
        | (.ok t, r2) => (.ok (HName.owned t), r2)
        | (.err e, r2) => (.err e, r2)
        | (.panic p, r2) => (.panic p, r2)
        | (.ub, r2) => (.ub, r2)) = (Res.ok hn, r2)) :
    ∃ n c1, skipName msg r.cur = .ok (n, c1) ∧ r2 = { r with cur := c1 } := by
  cases k with
  | marker =>
    simp only [Reader.onCur, CurM.skipName, CurM.lift] at h
    cases hs : skipName msg r.cur with
    | ok v => obtain ⟨n, c1⟩ := v; simp only [hs, Prod.mk.injEq] at h; exact ⟨n, c1, rfl, h.2.symm⟩
    | err e => simp [hs] at h
    | panic p => simp [hs] at h
    | ub => simp [hs] at h
  | ref =>
    simp only [Reader.onCur, CurM.skipName, CurM.lift] at h
    cases hs : skipName msg r.cur with
    | ok v => obtain ⟨n, c1⟩ := v; simp only [hs, Prod.mk.injEq] at h; exact ⟨n, c1, rfl, h.2.symm⟩
    | err e => simp [hs] at h
    | panic p => simp [hs] at h
    | ub => simp [hs] at h
  | owned nk =>
    simp only [Reader.onCur, CurM.readName, CurM.lift] at h
    cases hs : readName nk msg r.cur with
    | ok v =>
      obtain ⟨t, c1⟩ := v
      simp only [hs, Prod.mk.injEq] at h
      obtain ⟨n, hsk⟩ := C08.skip_of_read nk msg r.cur c1 t hs
      exact ⟨n, c1, hsk, h.2.symm⟩
    | err e => simp [hs] at h
    | panic p => simp [hs] at h
    | ub => simp [hs] at h

/-- **positions are kind-independent (header).** Whichever of the three record-header calls is used,
    on success the marker describes the record `skip_rr` sees at the same position: it starts at the
    cursor, its RDATA starts where the cursor stands afterwards, and RDATA start + RDLENGTH is where
    `skip_rr` ends. -/
theorem headerImpl_position (msg : Bytes) (r : Reader) (k : HKind) (c' : Cur)
    (hrec : skipRr msg r.cur = (.ok (), c')) (hn : HName) (m : Marker) (r1 : Reader)
    (h : r.headerImpl msg k = (.ok (hn, m), r1)) :
    m.offset = r.cur.pos ∧ r1.cur.pos = m.rdataPos ∧ r1.cur.lim = c'.lim ∧ r1.cur.orig = c'.orig ∧
      c'.pos = m.rdataPos + m.rdlen ∧ r1.done = r.done ∧
      (∃ s, r.tr.nextSection r.cur.pos = (some s, r1.tr) ∧ m.section_ = s) := by
  obtain ⟨n0, c1, hsk, hle, hc'⟩ := skipRr_inv msg r.cur c' hrec
  unfold Reader.headerImpl at h
  simp only [Reader.calcSection] at h
  cases hns : r.tr.nextSection r.cur.pos with
  | mk so t' =>
    cases so with
    | none => simp [hns] at h
    | some s =>
      simp only [hns] at h
      split at h
      · rename_i hn' r2 hnm
        obtain ⟨n, c1', hsk', hr2⟩ := headerName_resumes msg k { r with tr := t' } r2 hn' hnm
        simp only at hsk'
        rw [hsk] at hsk'
        simp only [Res.ok.injEq, Prod.mk.injEq] at hsk'
        obtain ⟨_, rfl⟩ := hsk'
        split at h
        · rename_i m' r3 hraw
          simp only [Prod.mk.injEq, Res.ok.injEq] at h
          obtain ⟨⟨_, rfl⟩, rfl⟩ := h
          obtain ⟨ho, hto, hsec, hrd, hr3⟩ := rawMarker_inv msg r2 r.cur.pos s m' r3 hraw
          subst hr2
          subst hr3
          simp only at hto hrd ⊢
          refine ⟨ho, ?_, ?_, ?_, ?_, trivial, ⟨s, rfl, hsec⟩⟩
          · simp only [Marker.rdataPos, hto, TYPE_TO_RDATA_OFFSET]
          · rw [hc']
          · rw [hc']
          · rw [hc']; simp only [Marker.rdataPos, hto, hrd, TYPE_TO_RDATA_OFFSET]
        · simp at h
        · simp at h
        · simp at h
      · simp at h
      · simp at h
      · simp at h

theorem finishData_ok_inv {α} (m : Marker) (res : Res α) (ra r2 : Reader) (v : α)
    (h : Reader.finishData m (res, ra) = (.ok v, r2)) :
    res = .ok v ∧ ∃ t', ra.tr.sectionRead m.section_ ra.cur.pos = .ok t' ∧ r2 = { ra with tr := t' } := by
  unfold Reader.finishData at h
  cases res with
  | ok v' =>
    simp only at h
    cases hs : ra.tr.sectionRead m.section_ ra.cur.pos with
    | ok t' =>
      simp only [hs, Prod.mk.injEq, Res.ok.injEq] at h
      exact ⟨by rw [h.1], t', rfl, h.2.symm⟩
    | err e => simp [hs] at h
    | panic p => simp [hs] at h
    | ub => simp [hs] at h
  | err e => simp at h
  | panic p => simp at h
  | ub => simp at h

/-- **positions are kind-independent (data).** Whichever data call consumes the record — skip, raw
    bytes, any of the 17 typed decoders, `opt_record` — on success the cursor stands at RDATA start +
    RDLENGTH, the window is closed, and the tracker has counted one record of the marker's section
    at that position. -/
theorem data_position (msg : Bytes) (r1 r2 : Reader) (m : Marker) (hr : RInv msg r1) :
    (r1.skipData m = (.ok (), r2) ∨ (∃ b, r1.dataBytes msg m = (.ok b, r2)) ∨
      (∃ t v, r1.data msg t m = (.ok v, r2)) ∨ (∃ o, r1.optRecord m = (.ok o, r2))) →
    r2.cur.pos = m.rdataPos + m.rdlen ∧ r2.cur.lim = r1.cur.lim ∧ r2.cur.orig = r1.cur.orig ∧ r2.done = r1.done ∧
      ∃ t', r1.tr.sectionRead m.section_ r2.cur.pos = .ok t' ∧ r2.tr = t' := by
  intro h
  rcases h with h | ⟨b, h⟩ | ⟨t, v, h⟩ | ⟨o, h⟩
  · unfold Reader.skipData Reader.assertAt at h
    split at h
    · rename_i hpos
      split at h
      · simp at h
      · unfold Reader.skipDataImpl Reader.onCur at h
        cases hk : CurM.skip m.rdlen r1.cur with
        | mk res c2 =>
          simp only [hk] at h
          obtain ⟨hres, t', hsr, hr2⟩ := finishData_ok_inv m res _ r2 () h
          subst hres
          simp only [CurM.skip, CurM.lift0] at hk
          cases hsk : Cur.skip r1.cur m.rdlen with
          | ok c3 =>
            simp only [hsk, Prod.mk.injEq, true_and] at hk
            subst hk
            have e3 : c3 = { r1.cur with pos := r1.cur.pos + m.rdlen } := by
              rcases skip_inv r1.cur m.rdlen c3 hsk with ⟨e, _⟩ | ⟨e, _⟩ <;> exact e
            subst hr2
            subst e3
            simp only at hsr ⊢
            exact ⟨by rw [hpos], trivial, trivial, trivial, t', hsr, rfl⟩
          | err e => simp [hsk] at hk
          | panic p => simp [hsk] at hk
          | ub => simp [hsk] at hk
    · simp at h
  · obtain ⟨_, hp, _⟩ := C04.raw_exact msg r1 r2 m b hr h
    unfold Reader.dataBytes Reader.assertAt at h
    split at h
    · split at h
      · simp at h
      · unfold Reader.onCur at h
        cases hk : CurM.slice msg m.rdlen r1.cur with
        | mk res c2 =>
          simp only [hk] at h
          obtain ⟨hres, t', hsr, hr2⟩ := finishData_ok_inv m res _ r2 b h
          subst hr2
          subst hres
          simp only [CurM.slice, CurM.lift] at hk
          cases hsl : Cur.slice msg r1.cur m.rdlen with
          | ok vb =>
            obtain ⟨b', c3⟩ := vb
            simp only [hsl, Prod.mk.injEq, Res.ok.injEq] at hk
            rcases Cur.slice_spec hr.1 m.rdlen with ⟨hs, _⟩ | ⟨hs, _⟩ | ⟨hs, _⟩
            · rw [hs] at hsl
              simp only [Res.ok.injEq, Prod.mk.injEq] at hsl
              obtain ⟨_, rfl⟩ := hsl
              obtain ⟨_, rfl⟩ := hk
              simp only at hsr hp ⊢
              exact ⟨hp, trivial, trivial, trivial, t', hsr, rfl⟩
            · rw [hs] at hsl; simp at hsl
            · rw [hs] at hsl; simp at hsl
          | err e => simp [hsl] at hk
          | panic p => simp [hsl] at hk
          | ub => simp [hsl] at hk
    · simp at h
  · obtain ⟨hp, _⟩ := C04.next_after_data msg t r1 r2 m v hr h
    unfold Reader.data Reader.assertAt at h
    split at h
    · split at h
      · simp at h
      · unfold Reader.onCur at h
        cases hk : readRData t msg m.rdlen r1.cur with
        | mk res c2 =>
          simp only [hk] at h
          obtain ⟨hres, t', hsr, hr2⟩ := finishData_ok_inv m res _ r2 v h
          subst hr2
          subst hres
          obtain ⟨_, hlim, ho, ho1, _⟩ := C04.rdata_exact t msg r1.cur c2 m.rdlen v hr.1 hk
          simp only at hsr hp ⊢
          exact ⟨hp, hlim, by rw [ho, ho1], trivial, t', hsr, rfl⟩
    · simp at h
  · unfold Reader.optRecord at h
    split at h
    · simp at h
    · unfold Reader.assertAt at h
      split at h
      · rename_i hpos
        split at h
        · simp at h
        · unfold Reader.onCur at h
          cases hk : CurM.skip m.rdlen r1.cur with
          | mk res c2 =>
            simp only [hk] at h
            cases res with
            | ok u =>
              simp only at h
              obtain ⟨_, t', hsr, hr2⟩ := finishData_ok_inv m _ _ r2 o h
              simp only [CurM.skip, CurM.lift0] at hk
              cases hsk : Cur.skip r1.cur m.rdlen with
              | ok c3 =>
                simp only [hsk, Prod.mk.injEq, true_and] at hk
                subst hk
                have e3 : c3 = { r1.cur with pos := r1.cur.pos + m.rdlen } := by
                  rcases skip_inv r1.cur m.rdlen c3 hsk with ⟨e, _⟩ | ⟨e, _⟩ <;> exact e
                subst hr2
                subst e3
                simp only at hsr ⊢
                exact ⟨by rw [hpos], trivial, trivial, trivial, t', hsr, rfl⟩
              | err e => simp [hsk] at hk
              | panic p => simp [hsk] at hk
              | ub => simp [hsk] at hk
            | err e =>
              simp only at h
              have := (finishData_ok_inv m _ _ r2 o h).1
              simp at this
            | panic p =>
              simp only at h
              have := (finishData_ok_inv m _ _ r2 o h).1
              simp at this
            | ub =>
              simp only at h
              have := (finishData_ok_inv m _ _ r2 o h).1
              simp at this
      · simp at h

end Rsdns.C09
