/-
  Rsdns.Lemmas.Views — simulation between the cursor-style reader and the iterator API on ARBITRARY
  bytes: inversion lemmas for the reader's calls, congruence of the section tracker in its counters,
  one record (`record_sim`), the record loops (`RChain`, `drain_sim`), the question loops
  (`questions_sim`).  Helpers of `Rsdns.Props.C08Views.iter_agrees_with_pass`.
-/
import Rsdns.Lemmas.RecordSetSafe
import Rsdns.Lemmas.IterSafe
import Rsdns.Lemmas.Pass
import Rsdns.Model.Pass
import Rsdns.Spec.Views
set_option linter.unusedVariables false
namespace Rsdns.C08
open Rsdns Generated Spec C09

/-- `record_header::<N>` succeeded: which section, which name, which marker reads -/
theorem headerImpl_owned_inv {msg : Bytes} {k : NameKind} {r r1 : Reader} {hn : HName} {m : Marker}
    (h : r.headerImpl msg (.owned k) = (.ok (hn, m), r1)) :
    ∃ s t1 text cn, r.tr.nextSection r.cur.pos = (some s, t1) ∧ readName k msg r.cur = .ok (text, cn) ∧
      hn = .owned text ∧ Reader.rawMarker msg { r with cur := cn, tr := t1 } r.cur.pos s = (.ok m, r1) := by
  unfold Reader.headerImpl Reader.calcSection at h
  cases hns : r.tr.nextSection r.cur.pos with
  | mk so t1 =>
    cases so with
    | none => simp [hns] at h
    | some s =>
      simp only [hns, Reader.onCur, CurM.readName, CurM.lift] at h
      cases hrn : readName k msg r.cur with
      | ok v =>
        obtain ⟨text, cn⟩ := v
        simp only [hrn] at h
        cases hrm : Reader.rawMarker msg { r with cur := cn, tr := t1 } r.cur.pos s with
        | mk res3 r3 =>
          simp only [hrm] at h
          cases res3 with
          | ok m' =>
            simp only [Prod.mk.injEq, Res.ok.injEq] at h
            obtain ⟨⟨rfl, rfl⟩, rfl⟩ := h
            exact ⟨s, t1, text, cn, rfl, rfl, rfl, hrm⟩
          | err e => simp at h
          | panic p => simp at h
          | ub => simp at h
      | err e => simp [hrn] at h
      | panic p => simp [hrn] at h
      | ub => simp [hrn] at h

/-- `next_section` looks at the counters only -/
theorem nextSection_congr (t t' : Tracker) (p p' : Nat) (h : ∀ j, t.sec j = t'.sec j) :
    (t'.nextSection p').1 = (t.nextSection p).1 ∧ ∀ j, (t'.nextSection p').2.sec j = (t.nextSection p).2.sec j := by
  have e0 := h 0; have e1 := h 1; have e2 := h 2
  have hsec : ∀ (a b : Tracker), a.sec = b.sec → ∀ j, a.sec j = b.sec j := fun a b hab j => by rw [hab]
  by_cases h0 : (t.sec 0).read < (t.sec 0).total
  · have h0' : (t'.sec 0).read < (t'.sec 0).total := by rw [← e0]; exact h0
    rw [nextSection_eq0 t p h0, nextSection_eq0 t' p' h0']
    refine ⟨rfl, fun j => ?_⟩
    rw [(markFirst_sec t' p' 0).1, (markFirst_sec t p 0).1]; exact (h j).symm
  · have h0' : ¬ (t'.sec 0).read < (t'.sec 0).total := by rw [← e0]; exact h0
    by_cases h1 : (t.sec 1).read < (t.sec 1).total
    · have h1' : (t'.sec 1).read < (t'.sec 1).total := by rw [← e1]; exact h1
      rw [nextSection_eq1 t p h0 h1, nextSection_eq1 t' p' h0' h1']
      refine ⟨rfl, fun j => ?_⟩
      rw [(backFill_sec _ p' 1).1, (backFill_sec _ p 1).1, (markFirst_sec t' p' 1).1, (markFirst_sec t p 1).1]
      exact (h j).symm
    · have h1' : ¬ (t'.sec 1).read < (t'.sec 1).total := by rw [← e1]; exact h1
      by_cases h2 : (t.sec 2).read < (t.sec 2).total
      · have h2' : (t'.sec 2).read < (t'.sec 2).total := by rw [← e2]; exact h2
        rw [nextSection_eq2 t p h0 h1 h2, nextSection_eq2 t' p' h0' h1' h2']
        refine ⟨rfl, fun j => ?_⟩
        rw [(backFill_sec _ p' 2).1, (backFill_sec _ p 2).1, (markFirst_sec t' p' 2).1, (markFirst_sec t p 2).1]
        exact (h j).symm
      · have h2' : ¬ (t'.sec 2).read < (t'.sec 2).total := by rw [← e2]; exact h2
        have hn : ∀ (a : Tracker) (q : Nat), ¬ (a.sec 0).read < (a.sec 0).total → ¬ (a.sec 1).read < (a.sec 1).total →
            ¬ (a.sec 2).read < (a.sec 2).total → a.nextSection q = (none, a) := by
          intro a q a0 a1 a2
          rw [Tracker.nextSection, Tracker.nextSectionFrom]
          simp only [Nat.reduceAdd, Nat.sub_self, if_neg a0]
          rw [Tracker.nextSectionFrom]
          simp only [Nat.reduceAdd, Nat.reduceSub, if_neg a1]
          rw [Tracker.nextSectionFrom]
          simp only [Nat.reduceAdd, Nat.reduceSub, if_neg a2]
          rw [Tracker.nextSectionFrom]
        rw [hn t p h0 h1 h2, hn t' p' h0' h1' h2']
        exact ⟨rfl, fun j => (h j).symm⟩

/-- `section_read` on two trackers with the same counters: the same outcome kind, the same counters -/
theorem sectionRead_congr (t t' : Tracker) (s p p' : Nat) (h : ∀ j, t.sec j = t'.sec j) (t2 : Tracker)
    (hs : t.sectionRead s p = .ok t2) : ∃ t2', t'.sectionRead s p' = .ok t2' ∧ ∀ j, t2.sec j = t2'.sec j := by
  have hov : ¬ ((t.sec s).read + 1 > 65535) := by
    intro hc
    unfold Tracker.sectionRead at hs
    simp only [hc, if_true] at hs
    cases hs
  have e1 := sectionRead_eq t s p (by omega)
  have e2 := sectionRead_eq t' s p' (by rw [← h s]; omega)
  rw [e1] at hs
  simp only [Res.ok.injEq] at hs
  refine ⟨_, e2, fun j => ?_⟩
  rw [← hs]
  have hb : ∀ j, (bump t s).sec j = (bump t' s).sec j := by
    intro j
    simp only [bump, upd, h s]
    split
    · rfl
    · exact h j
  rw [h s]
  split
  · rw [(fwdFill_sec _ _ _ _).1, (fwdFill_sec _ _ _ _).1]; exact hb j
  · exact hb j

/-- counting one record of a section that has records left takes one off the total left -/
theorem sectionRead_left (t t2 : Tracker) (s p : Nat) (hs : s < 3) (hlt : (t.sec s).read < (t.sec s).total)
    (h : t.sectionRead s p = .ok t2) : trackerLeft t2 + 1 = trackerLeft t := by
  have hov : ¬ ((t.sec s).read + 1 > 65535) := by
    intro hc
    unfold Tracker.sectionRead at h
    simp only [hc, if_true] at h
    cases h
  rw [sectionRead_eq t s p (by omega)] at h
  simp only [Res.ok.injEq] at h
  have hsec : t2.sec = (bump t s).sec := by
    rw [← h]
    split
    · exact (fwdFill_sec _ _ _ _).1
    · rfl
  have : s = 0 ∨ s = 1 ∨ s = 2 := by omega
  simp only [trackerLeft, hsec]
  rcases this with rfl | rfl | rfl <;> simp [bump, upd] <;> omega

theorem recordHeader_ok_inv {msg : Bytes} {k : HKind} {r r1 : Reader} {x : HName × Marker}
    (h : r.recordHeader msg k = (.ok x, r1)) : r.done = false ∧ r.headerImpl msg k = (.ok x, r1) := by
  unfold Reader.recordHeader at h
  split at h
  · simp at h
  · rename_i hd
    refine ⟨by simpa using hd, ?_⟩
    unfold markDone at h
    cases hi : r.headerImpl msg k with
    | mk res r2 =>
      rw [hi] at h
      cases res with
      | ok v => exact h
      | err e => simp at h
      | panic p => simp at h
      | ub => simp at h

/-! ### the iterator's view of what a linear pass reports -/

/-- a live reader between two records and the iterator's `Records` state describe the same place -/
structure Sim (msg : Bytes) (r : Reader) (cur : Cur) (tr : Tracker) : Prop where
  inv : RInv msg r
  cur : r.cur = cur
  orig : r.cur.orig = none
  live : r.done = false
  sec : ∀ j, r.tr.sec j = tr.sec j

/-- **one record, both APIs.**  Where the cursor-style reader reads a record completely (owned name,
    the data call that fits its type), `Records::read_impl` from the same place passes it over, returns
    the same record, or reports `UnexpectedType` for a defined code without a data type — and stands at
    the same place afterwards. -/
theorem record_sim (msg : Bytes) (r r' : Reader) (cur : Cur) (tr : Tracker) (item : PassRec) (hS : Sim msg r cur tr)
    (h : r.readRecord msg = (.ok item, r')) :
    ∃ tr', Sim msg r' r'.cur tr' ∧ trackerLeft r'.tr + 1 = trackerLeft r.tr ∧
      (skippedRec item = true → ∀ fuel, Records.readImpl msg cur tr (fuel + 1) = Records.readImpl msg r'.cur tr' fuel) ∧
      (skippedRec item = false → ∀ v, item.val = .typed v → ∀ fuel,
        Records.readImpl msg cur tr (fuel + 1) = (.ok (some (toRecord item v)), r'.cur, tr')) ∧
      (skippedRec item = false → (∀ v, item.val ≠ .typed v) → ∀ fuel, ∃ c t,
        Records.readImpl msg cur tr (fuel + 1) = (.err (.unexpectedType item.marker.rtype), c, t)) := by
  obtain ⟨hinv, hcur, horig, hlive, hsec⟩ := hS
  subst hcur
  unfold Reader.readRecord at h
  cases hh : r.recordHeader msg (.owned .heap) with
  | mk res r1 =>
    rw [hh] at h
    cases res with
    | err e => simp at h
    | panic p => simp at h
    | ub => simp at h
    | ok x =>
      obtain ⟨hn, m⟩ := x
      obtain ⟨_, hhi⟩ := recordHeader_ok_inv hh
      have hinv1 : RInv msg r1 := by have := recordHeader_ok (msg := msg) hinv (.owned .heap); rw [hh] at this; exact this.2
      obtain ⟨s, t1, text, cn, hns, hrn, hhn, hrm⟩ := headerImpl_owned_inv hhi
      obtain ⟨c2, c3, c4, h1, h2, h3, h4, hsec_m, _, hr1⟩ := rawMarker_reads hrm
      obtain ⟨_, _, _, _, hr1'⟩ := rawMarker_inv msg _ _ _ _ _ hrm
      obtain ⟨_, _, _, _, hcnl, hcno⟩ := C03.read_sound .heap msg r.cur cn text hrn
      have hr1cur : r1.cur = { cn with pos := cn.pos + 10 } := by rw [hr1']
      have hr1tr : r1.tr = t1 := by rw [hr1']
      have hr1done : r1.done = false := by rw [hr1']; exact hlive
      -- the iterator's side of the header
      obtain ⟨hcs, hcsec⟩ := nextSection_congr r.tr tr r.cur.pos r.cur.pos hsec
      rw [hns] at hcs hcsec
      simp only at hcs hcsec
      obtain ⟨nn, hsk⟩ := skip_of_read .heap msg r.cur cn text hrn
      have hhdr : (do
          let _ ← CurM.skipName msg
          let rtype ← CurM.u16be msg
          let rclass ← CurM.u16be msg
          let ttl ← CurM.u32be msg
          let rdlen ← CurM.u16be msg
          pure (rtype, rclass, ttl, rdlen) : CurM (Nat × Nat × Nat × Nat)) r.cur =
          (.ok (m.rtype, m.rclass, m.ttl, m.rdlen), r1.cur) := by
        simp only [bind, CurM.bind, CurM.skipName, CurM.lift, hsk, h1, h2, h3, h4, pure, CurM.pure]
      have hclone : r1.cur.cloneWithPos r.cur.pos = r.cur := by
        rw [hr1cur]
        cases hrc : r.cur with
        | mk l p o =>
          rw [hrc] at horig hcnl hcno
          simp only at horig hcnl hcno
          subst horig
          simp only [Cur.cloneWithPos, hcno, hcnl, Option.getD_none]
      have hrni : readName .inline msg r.cur = .ok (text, cn) := by rw [← read_kinds_agree]; exact hrn
      cases htr1 : tr.nextSection r.cur.pos with
      | mk so tr1 =>
        rw [htr1] at hcs hcsec
        try simp only at hcs hcsec
        subst hcs
        -- common tail: the section counters after the record
        have tail : ∀ (c2' : Cur) (t2 : Tracker), r1.tr.sectionRead m.section_ c2'.pos = .ok t2 →
            ∃ tr2, tr1.sectionRead s c2'.pos = .ok tr2 ∧ ∀ j, t2.sec j = tr2.sec j := by
          intro c2' t2 hsr
          rw [hr1tr, hsec_m] at hsr
          exact sectionRead_congr t1 tr1 s c2'.pos c2'.pos (fun j => (hcsec j).symm) t2 hsr
        have left : ∀ (c2' : Cur) (t2 : Tracker), r1.tr.sectionRead m.section_ c2'.pos = .ok t2 →
            trackerLeft t2 + 1 = trackerLeft r.tr := by
          intro c2' t2 hsr
          rw [hr1tr, hsec_m] at hsr
          have hf := nextSection_facts r.tr r.cur.pos
          rw [hns] at hf
          obtain ⟨hs3, hlt, hsame, _⟩ := hf
          have := sectionRead_left t1 t2 s c2'.pos hs3 (by rw [hsame]; exact hlt) hsr
          rw [this]
          simp only [trackerLeft, hsame]
        simp only at h
        cases hof : RType.ofCode m.rtype with
        | some t =>
          rw [hof] at h
          simp only at h
          cases hd : r1.data msg t m with
          | mk res2 r2 =>
            rw [hd] at h
            cases res2 with
            | err e => simp at h
            | panic p => simp at h
            | ub => simp at h
            | ok v =>
              simp only [Prod.mk.injEq, Res.ok.injEq] at h
              obtain ⟨hitem, hr'⟩ := h
              subst hr'
              obtain ⟨_, _, c2', t2, hrd, hsr, hr2⟩ := data_inv hd
              obtain ⟨tr2, hsr', hsec2⟩ := tail c2' t2 hsr
              have hinv2 : RInv msg r2 := by have := data_ok (msg := msg) hinv1 t m; rw [hd] at this; exact this.2
              have hsp := C04.rdata_exact t msg r1.cur c2' m.rdlen v hinv1.1 hrd
              have hr2cur : r2.cur = c2' := by rw [hr2]
              refine ⟨tr2, ⟨hinv2, rfl, by rw [hr2cur]; exact hsp.2.2.1, by rw [hr2]; exact hr1done, by rw [hr2]; exact hsec2⟩, by rw [hr2]; exact left c2' t2 hsr, ?_, ?_, ?_⟩
              · intro hskip fuel
                have hcond : (m.rtype == TYPE_OPT || !isDefined CLASS_KNOWN m.rclass || !isDefined TYPE_KNOWN m.rtype) = true := by
                  rw [← hitem] at hskip; exact hskip
                rw [Records.readImpl]
                simp only [htr1, hhdr, hcond, if_true, skip_of_rdata hinv1.1 hrd, hsr', hr2cur]
              · intro hskip v' hv' fuel
                have hcond : (m.rtype == TYPE_OPT || !isDefined CLASS_KNOWN m.rclass || !isDefined TYPE_KNOWN m.rtype) = false := by
                  rw [← hitem] at hskip; exact hskip
                have hvv : v' = v := by rw [← hitem] at hv'; simpa using hv'.symm
                subst hvv
                rw [Records.readImpl]
                simp only [htr1, hhdr, hcond, Bool.false_eq_true, if_false, hof, hclone, hrni, hrd, hsr', hr2cur]
                rw [← hitem]
                simp only [toRecord, hhn, hsec_m]
              · intro _ hnt
                rw [← hitem] at hnt
                exact absurd rfl (hnt v)
        | none =>
          rw [hof] at h
          simp only at h
          by_cases hopt : m.rtype = TYPE_OPT
          · rw [if_pos hopt] at h
            cases hd : r1.optRecord m with
            | mk res2 r2 =>
              rw [hd] at h
              cases res2 with
              | err e => simp at h
              | panic p => simp at h
              | ub => simp at h
              | ok o =>
                simp only [Prod.mk.injEq, Res.ok.injEq] at h
                obtain ⟨hitem, hr'⟩ := h
                subst hr'
                obtain ⟨_, _, _, c2', t2, hskp, hsr, hr2⟩ := optRecord_inv hd
                obtain ⟨tr2, hsr', hsec2⟩ := tail c2' t2 hsr
                have hinv2 : RInv msg r2 := by have := optRecord_ok (msg := msg) hinv1 m; rw [hd] at this; exact this.2
                have hr2cur : r2.cur = c2' := by rw [hr2]
                have ho2 : c2'.orig = none := by
                  have := (data_position msg r1 r2 m hinv1 (Or.inr (Or.inr (Or.inr ⟨o, hd⟩)))).2.2.1
                  rw [hr2cur, hr1cur] at this
                  rw [this]; exact hcno.trans horig
                refine ⟨tr2, ⟨hinv2, rfl, by rw [hr2cur]; exact ho2, by rw [hr2]; exact hr1done, by rw [hr2]; exact hsec2⟩, by rw [hr2]; exact left c2' t2 hsr, ?_, ?_, ?_⟩
                · intro hskip fuel
                  have hcond : (m.rtype == TYPE_OPT || !isDefined CLASS_KNOWN m.rclass || !isDefined TYPE_KNOWN m.rtype) = true := by
                    simp [hopt]
                  rw [Records.readImpl]
                  simp only [htr1, hhdr, hcond, if_true, hskp, hsr', hr2cur]
                · intro hskip
                  rw [← hitem] at hskip
                  simp [skippedRec, hopt] at hskip
                · intro hskip
                  rw [← hitem] at hskip
                  simp [skippedRec, hopt] at hskip
          · rw [if_neg hopt] at h
            cases hd : r1.dataBytes msg m with
            | mk res2 r2 =>
              rw [hd] at h
              cases res2 with
              | err e => simp at h
              | panic p => simp at h
              | ub => simp at h
              | ok b =>
                simp only [Prod.mk.injEq, Res.ok.injEq] at h
                obtain ⟨hitem, hr'⟩ := h
                subst hr'
                obtain ⟨_, _, c2', t2, hsl, hsr, hr2⟩ := dataBytes_inv hd
                obtain ⟨tr2, hsr', hsec2⟩ := tail c2' t2 hsr
                have hinv2 : RInv msg r2 := by have := dataBytes_ok (msg := msg) hinv1 m; rw [hd] at this; exact this.2
                have hr2cur : r2.cur = c2' := by rw [hr2]
                have ho2 : c2'.orig = none := by
                  have := (data_position msg r1 r2 m hinv1 (Or.inr (Or.inl ⟨b, hd⟩))).2.2.1
                  rw [hr2cur, hr1cur] at this
                  rw [this]; exact hcno.trans horig
                refine ⟨tr2, ⟨hinv2, rfl, by rw [hr2cur]; exact ho2, by rw [hr2]; exact hr1done, by rw [hr2]; exact hsec2⟩, by rw [hr2]; exact left c2' t2 hsr, ?_, ?_, ?_⟩
                · intro hskip fuel
                  have hcond : (m.rtype == TYPE_OPT || !isDefined CLASS_KNOWN m.rclass || !isDefined TYPE_KNOWN m.rtype) = true := by
                    rw [← hitem] at hskip; exact hskip
                  rw [Records.readImpl]
                  simp only [htr1, hhdr, hcond, if_true, skip_of_slice hsl, hsr', hr2cur]
                · intro _ v' hv'
                  rw [← hitem] at hv'
                  cases hv'
                · intro hskip _ fuel
                  have hcond : (m.rtype == TYPE_OPT || !isDefined CLASS_KNOWN m.rclass || !isDefined TYPE_KNOWN m.rtype) = false := by
                    rw [← hitem] at hskip; exact hskip
                  rw [Records.readImpl]
                  simp only [htr1, hhdr, hcond, Bool.false_eq_true, if_false, hof]
                  rw [← hitem]
                  exact ⟨_, _, rfl⟩

/-- the reader's record loop, unrolled: `items` are read one after the other until none is left -/
inductive RChain (msg : Bytes) : Reader → List PassRec → Reader → Prop
  | nil (r : Reader) : r.recordsCount = .ok 0 → RChain msg r [] r
  | cons (r r1 r' : Reader) (item : PassRec) (items : List PassRec) (n : Nat) :
      r.recordsCount = .ok n → n ≠ 0 → r.readRecord msg = (.ok item, r1) → RChain msg r1 items r' →
      RChain msg r (item :: items) r'

theorem recordsLeft_ok {t : Tracker} {n : Nat} (h : t.recordsLeft = .ok n) :
    n = trackerLeft t ∧ ∀ j, j < 3 → (t.sec j).read ≤ (t.sec j).total := by
  unfold Tracker.recordsLeft at h
  rcases Counts.left_cases (t.sec 0) with ⟨a, ha⟩ | ⟨p, ha⟩ <;>
  rcases Counts.left_cases (t.sec 1) with ⟨b, hb⟩ | ⟨q, hb⟩ <;>
  rcases Counts.left_cases (t.sec 2) with ⟨c, hc⟩ | ⟨s, hc⟩ <;>
  simp only [ha, hb, hc] at h <;> try (cases h; done)
  simp only [Res.ok.injEq] at h
  have key : ∀ (x : Counts) (v : Nat), x.left = .ok v → v = x.total - x.read ∧ x.read ≤ x.total := by
    intro x v hx
    unfold Counts.left at hx
    split at hx
    · cases hx
    · simp only [Res.ok.injEq] at hx; exact ⟨hx.symm, by omega⟩
  obtain ⟨a1, a2⟩ := key _ _ ha
  obtain ⟨b1, b2⟩ := key _ _ hb
  obtain ⟨c1, c2⟩ := key _ _ hc
  refine ⟨by unfold trackerLeft; omega, ?_⟩
  intro j hj
  have : j = 0 ∨ j = 1 ∨ j = 2 := by omega
  rcases this with rfl | rfl | rfl <;> assumption

theorem trackerLeft_congr {t t' : Tracker} (h : ∀ j, t.sec j = t'.sec j) : trackerLeft t = trackerLeft t' := by
  simp only [trackerLeft, h]

theorem nextSection_exhausted (t : Tracker) (q : Nat) (h0 : ¬ (t.sec 0).read < (t.sec 0).total)
    (h1 : ¬ (t.sec 1).read < (t.sec 1).total) (h2 : ¬ (t.sec 2).read < (t.sec 2).total) :
    t.nextSection q = (none, t) := by
  rw [Tracker.nextSection, Tracker.nextSectionFrom]
  simp only [Nat.reduceAdd, Nat.sub_self, if_neg h0]
  rw [Tracker.nextSectionFrom]
  simp only [Nat.reduceAdd, Nat.reduceSub, if_neg h1]
  rw [Tracker.nextSectionFrom]
  simp only [Nat.reduceAdd, Nat.reduceSub, if_neg h2]
  rw [Tracker.nextSectionFrom]

theorem Sim.refl {msg : Bytes} {r : Reader} {cur : Cur} {tr : Tracker} (h : Sim msg r cur tr) : Sim msg r r.cur r.tr :=
  ⟨h.inv, rfl, h.orig, h.live, fun _ => rfl⟩

theorem RChain.left {msg : Bytes} {r r' : Reader} {items : List PassRec} (h : RChain msg r items r') :
    ∀ {cur : Cur} {tr : Tracker}, Sim msg r cur tr → trackerLeft r.tr = items.length := by
  induction h with
  | nil r hc =>
    intro cur tr hS
    simp only [Reader.recordsCount, hS.live, Bool.not_false, if_true] at hc
    exact (recordsLeft_ok hc).1.symm
  | cons r r1 r' item items n hc hn hr hrest ih =>
    intro cur tr hS
    obtain ⟨tr1, hS1, hleft, _⟩ := record_sim msg r r1 r.cur r.tr item hS.refl hr
    have := ih hS1
    simp only [List.length_cons]
    omega

/-- the body of one `recordsDrain` step -/
def drainBody (msg : Bytes) (x : Res (Option Record) × Cur × Tracker) (D : Nat) (acc : List (Except Err Record)) :
    Res (List (Except Err Record)) :=
  match x with
  | (.ok none, _, _) => .ok acc.reverse
  | (.ok (some r), c, t) => recordsDrain msg c t D (.ok r :: acc)
  | (.err e, _, _) => .ok ((.error e :: acc).reverse)
  | (.panic p, _, _) => .panic p
  | (.ub, _, _) => .ub

theorem recordsDrain_succ (msg : Bytes) (cur : Cur) (tr : Tracker) (D : Nat) (acc : List (Except Err Record)) :
    recordsDrain msg cur tr (D + 1) acc = drainBody msg (Records.readImpl msg cur tr (trackerLeft tr + 1)) D acc := by
  rw [recordsDrain]
  unfold drainBody
  rfl

/-- **the drained `Records` iterator = the iterator's view of the pass**, from any place where the two
    stand together -/
theorem drain_sim (msg : Bytes) {r r' : Reader} {items : List PassRec} (h : RChain msg r items r') :
    ∀ (cur : Cur) (tr : Tracker), Sim msg r cur tr → ∀ (F D : Nat) (acc : List (Except Err Record)),
      items.length < F → items.length < D + 1 →
      drainBody msg (Records.readImpl msg cur tr F) D acc = .ok (acc.reverse ++ iterView items) := by
  induction h with
  | nil r hc =>
    intro cur tr hS F D acc hF _
    simp only [Reader.recordsCount, hS.live, Bool.not_false, if_true] at hc
    obtain ⟨_, hle⟩ := recordsLeft_ok hc
    have h0 := (recordsLeft_ok hc).1
    have hz : ∀ j, j < 3 → ¬ (tr.sec j).read < (tr.sec j).total := by
      intro j hj
      rw [← hS.sec j]
      have := hle j hj
      have hl : trackerLeft r.tr = 0 := h0.symm
      unfold trackerLeft at hl
      have : j = 0 ∨ j = 1 ∨ j = 2 := by omega
      rcases this with rfl | rfl | rfl <;> omega
    cases F with
    | zero => omega
    | succ F' =>
      rw [Records.readImpl, nextSection_exhausted tr cur.pos (hz 0 (by omega)) (hz 1 (by omega)) (hz 2 (by omega))]
      simp [drainBody, iterView]
  | cons r r1 r' item items n hc hn hr hrest ih =>
    intro cur tr hS F D acc hF hD
    obtain ⟨tr1, hS1, hleft, hskip, htyped, hother⟩ := record_sim msg r r1 cur tr item hS hr
    simp only [List.length_cons] at hF hD
    cases F with
    | zero => omega
    | succ F' =>
      by_cases hsk : skippedRec item = true
      · rw [hskip hsk F']
        rw [ih r1.cur tr1 hS1 F' D acc (by omega) (by omega)]
        simp [iterView, hsk]
      · have hskf : skippedRec item = false := by simpa using hsk
        cases hv : item.val with
        | typed v =>
          rw [htyped hskf v hv F']
          cases D with
          | zero => omega
          | succ D' =>
            simp only [drainBody]
            rw [recordsDrain_succ]
            have hlen : trackerLeft tr1 = items.length := by
              rw [← trackerLeft_congr hS1.sec]; exact hrest.left hS1
            rw [ih r1.cur tr1 hS1 (trackerLeft tr1 + 1) D' _ (by omega) (by omega)]
            simp [iterView, hskf, hv]
        | opt o =>
          obtain ⟨c, t, he⟩ := hother hskf (by intro v hv'; rw [hv] at hv'; cases hv') F'
          rw [he]
          simp [drainBody, iterView, hskf, hv]
        | raw b =>
          obtain ⟨c, t, he⟩ := hother hskf (by intro v hv'; rw [hv] at hv'; cases hv') F'
          rw [he]
          simp [drainBody, iterView, hskf, hv]

/-! ### the record loop of the reader as a chain -/

theorem count_live {r : Reader} {n : Nat} (h : r.recordsCount = .ok n) (hn : n ≠ 0) : r.done = false := by
  unfold Reader.recordsCount at h
  cases hd : r.done with
  | false => rfl
  | true => simp [hd] at h; omega

theorem chain_of_readRecords (msg : Bytes) : ∀ (fuel : Nat) (r : Reader) (acc : List PassRec), RInv msg r →
    r.cur.orig = none → trackerLeft r.tr < fuel → ∀ (out : List PassRec) (e : Res Unit) (r' : Reader),
    Reader.readRecords msg fuel r acc = (out, e, r') →
    ∃ items, out = acc.reverse ++ items ∧ (e = .ok () → RChain msg r items r')
  | 0, _, _, _, _, hlt, _, _, _, _ => by omega
  | fuel + 1, r, acc, hinv, horig, hlt, out, e, r', h => by
    rw [Reader.readRecords] at h
    cases hc : r.recordsCount with
    | ok n =>
      rw [hc] at h
      simp only at h
      by_cases hn : n = 0
      · simp only [hn, if_true, Prod.mk.injEq] at h
        obtain ⟨rfl, rfl, rfl⟩ := h
        exact ⟨[], by simp, fun _ => RChain.nil r (by rw [hc, hn])⟩
      · simp only [hn, if_false] at h
        have hlive := count_live hc hn
        cases hr : r.readRecord msg with
        | mk res r1 =>
          rw [hr] at h
          cases res with
          | ok item =>
            simp only at h
            obtain ⟨tr1, hS1, hleft, _⟩ := record_sim msg r r1 r.cur r.tr item ⟨hinv, rfl, horig, hlive, fun _ => rfl⟩ hr
            obtain ⟨items, ho, hch⟩ := chain_of_readRecords msg fuel r1 (item :: acc) hS1.inv hS1.orig (by omega) out e r' h
            refine ⟨item :: items, by rw [ho]; simp, fun he => RChain.cons r r1 r' item items n hc hn hr (hch he)⟩
          | err e' =>
            simp only [Prod.mk.injEq] at h
            obtain ⟨rfl, rfl, rfl⟩ := h
            exact ⟨[], by simp, fun he => by cases he⟩
          | panic p =>
            simp only [Prod.mk.injEq] at h
            obtain ⟨rfl, rfl, rfl⟩ := h
            exact ⟨[], by simp, fun he => by cases he⟩
          | ub =>
            simp only [Prod.mk.injEq] at h
            obtain ⟨rfl, rfl, rfl⟩ := h
            exact ⟨[], by simp, fun he => by cases he⟩
    | err e' =>
      rw [hc] at h
      simp only [Prod.mk.injEq] at h
      obtain ⟨rfl, rfl, rfl⟩ := h
      exact ⟨[], by simp, fun he => by cases he⟩
    | panic p =>
      rw [hc] at h
      simp only [Prod.mk.injEq] at h
      obtain ⟨rfl, rfl, rfl⟩ := h
      exact ⟨[], by simp, fun he => by cases he⟩
    | ub =>
      rw [hc] at h
      simp only [Prod.mk.injEq] at h
      obtain ⟨rfl, rfl, rfl⟩ := h
      exact ⟨[], by simp, fun he => by cases he⟩

/-! ### questions -/

/-- `question()` succeeded -/
theorem question_inv {msg : Bytes} {r r' : Reader} {qo : QOut} (h : r.question msg .question = (.ok qo, r')) :
    r.done = false ∧ ∃ q t, qo = .owned q ∧ readQuestion msg r.cur = (.ok q, r'.cur) ∧
      r.tr.questionRead r'.cur.pos = .ok t ∧ r' = { r with cur := r'.cur, tr := t } := by
  unfold Reader.question at h
  split at h
  · simp at h
  · rename_i hd
    refine ⟨by simpa using hd, ?_⟩
    split at h
    · simp at h
    · simp at h
    · simp at h
    · rename_i left hl
      simp only at h
      split at h
      · simp at h
      · split at h
        · simp at h
        · have hk : (QKind.question == QKind.question || QKind.question == QKind.theQuestion) = true := by decide
          rw [hk] at h
          unfold Reader.afterQ at h
          cases hq : r.readQ msg true with
          | mk res r1 =>
            rw [hq] at h
            cases res with
            | ok q0 =>
              simp only at h
              unfold Reader.readQ Reader.onCur at hq
              simp only [if_true] at hq
              cases hrq : readQuestion msg r.cur with
              | mk res2 c2 =>
                rw [hrq] at hq
                cases res2 with
                | ok q' =>
                  simp only [Prod.mk.injEq, Res.ok.injEq] at hq
                  obtain ⟨hq0, hr1⟩ := hq
                  subst hr1
                  simp only at h
                  cases hqr : r.tr.questionRead c2.pos with
                  | ok t =>
                    rw [hqr] at h
                    simp only [Prod.mk.injEq, Res.ok.injEq] at h
                    obtain ⟨rfl, rfl⟩ := h
                    exact ⟨q', t, hq0.symm, rfl, hqr, rfl⟩
                  | err e => rw [hqr] at h; simp at h
                  | panic p => rw [hqr] at h; simp at h
                  | ub => rw [hqr] at h; simp at h
                | err e => simp at hq
                | panic p => simp at hq
                | ub => simp at hq
            | err e => simp at h
            | panic p => simp at h
            | ub => simp at h

theorem questionRead_facts {t t' : Tracker} {p : Nat} (h : t.questionRead p = .ok t') :
    t'.qd.read = t.qd.read + 1 ∧ t'.qd.total = t.qd.total ∧ t'.sec = t.sec := by
  have hov : ¬ (t.qd.read + 1 > 65535) := by
    intro hc
    unfold Tracker.questionRead at h
    simp only [hc, if_true] at h
    cases h
  rw [questionRead_eq t p (by omega)] at h
  simp only [Res.ok.injEq] at h
  rw [← h]
  split
  · have := fwdFill_sec (bumpQ t) p 3 0
    exact ⟨by rw [this.2]; rfl, by rw [this.2]; rfl, by rw [this.1]; rfl⟩
  · exact ⟨rfl, rfl, rfl⟩

/-- **the question loop, both APIs**: where `question()` reads all questions, the `Questions` iterator
    yields the same questions and `skip_question` × QDCOUNT ends where the reader stands -/
theorem questions_sim (msg : Bytes) : ∀ (fuel : Nat) (r : Reader) (acc : List Question), RInv msg r →
    r.cur.orig = none → r.done = false → r.tr.qd.total - r.tr.qd.read < fuel →
    ∀ (out : List Question) (r' : Reader), Reader.readQuestions msg fuel r acc = (out, .ok (), r') →
    ∃ items, out = acc.reverse ++ items ∧
      (∀ accI, questionsDrain msg r.cur (r.tr.qd.total - r.tr.qd.read) accI = .ok (accI.reverse ++ items.map .ok)) ∧
      skipN (skipQuestion msg) (r.tr.qd.total - r.tr.qd.read) r.cur = (.ok (), r'.cur) ∧
      r'.tr.sec = r.tr.sec ∧ r'.done = false ∧ RInv msg r' ∧ r'.cur.orig = none
  | 0, _, _, _, _, _, hlt, _, _, _ => by omega
  | fuel + 1, r, acc, hinv, horig, hlive, hlt, out, r', h => by
    rw [Reader.readQuestions] at h
    have hcnt : r.questionsCount = r.tr.qd.left := by simp [Reader.questionsCount, hlive, Tracker.questionsLeft]
    rw [hcnt] at h
    unfold Counts.left at h
    by_cases hgt : r.tr.qd.read > r.tr.qd.total
    · simp [hgt] at h
    · simp only [hgt, if_false] at h
      by_cases hz : r.tr.qd.total - r.tr.qd.read = 0
      · simp only [hz, if_true, Prod.mk.injEq, true_and] at h
        obtain ⟨rfl, rfl⟩ := h
        exact ⟨[], by simp, by intro accI; simp [hz, questionsDrain], by simp [hz, skipN, pure, CurM.pure], rfl, hlive,
          hinv, horig⟩
      · simp only [hz, if_false] at h
        cases hq : r.question msg .question with
        | mk res r1 =>
          rw [hq] at h
          cases res with
          | ok qo =>
            obtain ⟨_, q, t, hqo, hrq, hqr, hr1⟩ := question_inv hq
            subst hqo
            simp only at h
            obtain ⟨hrd, htot, hsec⟩ := questionRead_facts hqr
            have hinv1 : RInv msg r1 := by have := question_ok (msg := msg) hinv .question; rw [hq] at this; exact this.2
            have hfr := readQuestion_ftriple msg r.cur.lim r.cur.orig r.cur (Frame.of hinv.1)
            rw [hrq] at hfr
            have horig1 : r1.cur.orig = none := by rw [hfr.2.2]; exact horig
            have hr1tr : r1.tr = t := by rw [hr1]
            have hr1done : r1.done = false := by rw [hr1]; exact hlive
            have hk : r1.tr.qd.total - r1.tr.qd.read + 1 = r.tr.qd.total - r.tr.qd.read := by
              rw [hr1tr, hrd, htot]; omega
            obtain ⟨items, ho, hdr, hskp, hsec', hd', hinv', horig'⟩ :=
              questions_sim msg fuel r1 (q :: acc) hinv1 horig1 hr1done (by omega) out r' h
            refine ⟨q :: items, by rw [ho]; simp, ?_, ?_, by rw [hsec', hr1tr, hsec], hd', hinv', horig'⟩
            · intro accI
              rw [← hk, questionsDrain, hrq]
              simp only
              rw [hdr]
              simp
            · rw [← hk, skipN]
              simp only [bind, CurM.bind, skipQuestion_of_read hrq]
              exact hskp
          | err e => simp at h
          | panic p => simp at h
          | ub => simp at h

theorem set_sec_eq_new (h : Header) : ∀ j, (Tracker.default.set h).sec j = (Tracker.new h).sec j := by
  intro j
  simp only [Tracker.set, Tracker.default, Tracker.new, upd]
  by_cases h2 : j = 2
  · subst h2; simp
  · by_cases h1 : j = 1
    · subst h1; simp
    · by_cases h0 : j = 0
      · subst h0; simp
      · simp [h0, h1, h2]

end Rsdns.C08
