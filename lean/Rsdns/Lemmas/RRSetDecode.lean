/-
  Rsdns.Lemmas.RRSetDecode — the straight-line prefix of `RecordSet::from_msg` over a WELL-FORMED
  single-question response (`MsgAt`): what `the_question_ref`, `read_answer_headers` and `read_opt`
  return (`fromMsgPrefix_decode`).
-/
import Rsdns.Lemmas.Chain
import Rsdns.Lemmas.PassDecode
import Rsdns.Lemmas.ReaderSafe
set_option linter.unusedVariables false
namespace Rsdns.C06
open Rsdns Generated Spec C09 C02

/-- **one record, header call of any kind, data skipped** (or read as OPT when it is one): the step
    of `read_answer_headers` / `read_opt` over a well-formed record -/
theorem recordStep_decode (msg : Bytes) (L : Lay) (hL : L.WF) (r : Reader) (hA : AtIndex msg L r)
    (hi : idx r.tr < L.n) (x : RecSpec) (hx : x.WF msg) (hoff : x.off = L.rOff (idx r.tr))
    (hend : x.endp = L.rOff (idx r.tr + 1)) (k : HKind) :
    ∃ s r1 r', r.recordHeader msg k = (.ok (hnameOf k r.cur x.labels, x.marker s), r1) ∧ SecOf L r.tr s ∧
      r1.skipData (x.marker s) = (.ok (), r') ∧
      (x.rtype = TYPE_OPT → r1.optRecord (x.marker s) = (.ok (Opt.fromMsg x.rclass x.ttl), r')) ∧
      AtIndex msg L r' ∧ idx r'.tr = idx r.tr + 1 ∧ r'.tr.qd = r.tr.qd := by
  obtain ⟨hname, hfit, hty, hcl, httl, hrd, hbody⟩ := hx
  have hcur := hA.cur
  have hlim : r.cur.lim = msg.size := by rw [hcur]; rfl
  have hpos : r.cur.pos = x.off := by rw [hA.pos, hoff]
  have horig : r.cur.orig = none := hA.orig
  obtain ⟨s, t', hns, hsecof, _, _, hsame, hqd, hk, hT1, _⟩ := header_attribution L hL r.tr hA.tinv hi
  rw [← hA.pos] at hns
  have hname' : LegalName msg r.cur.lim r.cur.pos x.labels x.nxt := by rw [hlim, hpos]; exact hname
  have hhd := record_header_decode msg r k (by rw [hlim]; exact Nat.le_refl _) s t' hns x.labels x.nxt hname'
    (by rw [hlim]; omega)
  have hh : r.recordHeader msg k =
      (.ok (hnameOf k r.cur x.labels, x.marker s), { r with cur := r.cur.setPos (x.nxt + 10), tr := t' }) := by
    unfold Reader.recordHeader
    simp only [hA.live, Bool.false_eq_true, if_false, hhd, markDone, RecSpec.marker, hpos, ← hty, ← hcl, ← httl, ← hrd]
  have hr1 : RInv msg { r with cur := r.cur.setPos (x.nxt + 10), tr := t' } := by
    have := recordHeader_ok (msg := msg) hA.inv k; rw [hh] at this; exact this.2
  have hc1 : r.cur.setPos (x.nxt + 10) = { lim := msg.size, pos := x.nxt + 10, orig := none } := by
    simp only [Cur.setPos, hlim, horig]
  have hsecof1 : SecOf L t' s := ⟨hsecof.1, by intro j hj; rw [hsame]; exact hsecof.2.1 j hj, by rw [hsame]; exact hsecof.2.2⟩
  have hidx1 : idx t' = idx r.tr := idx_congr hsame
  obtain ⟨t2, hsr, hT2, hi2, hqd2, _, _⟩ := sectionRead_spec L hL t' hT1 s hsecof1 hk
  rw [hidx1, ← hend] at hsr
  have hsr' : t'.sectionRead s (x.nxt + 10 + x.rdlen) = .ok t2 := hsr
  have hsk := skip_at msg.size (x.nxt + 10) x.rdlen none (by omega)
  have hd : Reader.skipData { r with cur := r.cur.setPos (x.nxt + 10), tr := t' } (x.marker s) =
      (.ok (), { r with cur := { lim := msg.size, pos := x.nxt + 10 + x.rdlen, orig := none }, tr := t2 }) := by
    unfold Reader.skipData Reader.assertAt Reader.skipDataImpl
    simp only [RecSpec.marker_rdataPos, RecSpec.marker_rdlen, RecSpec.marker_section, hc1, if_true, hA.live,
      Bool.false_eq_true, if_false, Reader.onCur, hsk, Reader.finishData, hsr']
  refine ⟨s, _, _, hh, hsecof, hd, ?_, ?_, by simp only; rw [hi2, hidx1], by simp only; rw [hqd2, hqd]⟩
  · intro hopt
    unfold Reader.optRecord Reader.assertAt
    simp only [hA.live, Bool.false_eq_true, if_false, RecSpec.marker_rdataPos, RecSpec.marker_rdlen,
      RecSpec.marker_section, RecSpec.marker_rtype, RecSpec.marker_rclass, RecSpec.marker_ttl, hc1, if_true, hopt,
      ne_eq, not_true_eq_false, Reader.onCur, hsk, Reader.finishData, hsr']
  · have hr2 := skipData_ok (msg := msg) hr1 (x.marker s)
    rw [hd] at hr2
    exact ⟨hr2.2, rfl, by simp only; rw [hi2, hidx1, ← hend]; rfl, hT2, hA.live⟩

/-- the header reference `read_answer_headers` keeps for record `x` -/
def hdrOf (msg : Bytes) (x : RecSpec) : HdrRef := (Cur.withPos msg x.off, x.marker 0)

/-- records `xs` laid out from index `i` of `L` -/
def LaidOut (msg : Bytes) (L : Lay) (i : Nat) (xs : List RecSpec) : Prop :=
  ∀ j, j < xs.length → ∃ x, xs[j]? = some x ∧ x.WF msg ∧ x.off = L.rOff (i + j) ∧ x.endp = L.rOff (i + j + 1)

theorem LaidOut.tail {msg : Bytes} {L : Lay} {i : Nat} {x : RecSpec} {xs : List RecSpec} (h : LaidOut msg L i (x :: xs)) :
    LaidOut msg L (i + 1) xs := by
  intro j hj
  obtain ⟨y, hy, hyw, hyo, hye⟩ := h (j + 1) (by simp; omega)
  refine ⟨y, by simpa using hy, hyw, ?_, ?_⟩
  · rw [hyo]; congr 1; omega
  · rw [hye]; congr 1; omega

theorem LaidOut.head {msg : Bytes} {L : Lay} {i : Nat} {x : RecSpec} {xs : List RecSpec} (h : LaidOut msg L i (x :: xs)) :
    x.WF msg ∧ x.off = L.rOff i ∧ x.endp = L.rOff (i + 1) := by
  obtain ⟨x0, hx0, hw, ho, he⟩ := h 0 (by simp)
  simp only [List.getElem?_cons_zero, Option.some.injEq] at hx0
  subst hx0
  exact ⟨hw, by simpa using ho, by simpa using he⟩

/-- **`read_answer_headers` over a well-formed message** collects exactly the answer-section records,
    in wire order, each as (reference to the owner name, marker) -/
theorem readAnswerHeaders_decode (msg : Bytes) (L : Lay) (hL : L.WF) :
    ∀ (xs : List RecSpec) (r : Reader) (acc : List HdrRef) (fuel : Nat), AtIndex msg L r →
      idx r.tr + xs.length = L.tot 0 → xs.length < fuel → LaidOut msg L (idx r.tr) xs →
      ∃ r', readAnswerHeaders msg r fuel acc = (.ok (acc.reverse ++ xs.map (hdrOf msg)), r') ∧
        AtIndex msg L r' ∧ idx r'.tr = L.tot 0 ∧ r'.tr.qd = r.tr.qd := by
  intro xs
  induction xs with
  | nil =>
    intro r acc fuel hA hn _ _
    simp only [List.length_nil, Nat.add_zero] at hn
    have hrd := (reads_of_idx hA.tinv).1
    have hcnt : r.recordsCountIn 0 = .ok 0 := by
      simp only [Reader.recordsCountIn, hA.live, Bool.not_false, if_true, recordsLeftIn_eq hA.tinv 0 (by omega), hrd, hn]
      simp
    refine ⟨r, ?_, hA, hn, rfl⟩
    cases fuel with
    | zero => simp [readAnswerHeaders]
    | succ f => simp [readAnswerHeaders, hcnt]
  | cons x xs ih =>
    intro r acc fuel hA hn hf hlo
    simp only [List.length_cons] at hn hf
    obtain ⟨hw, ho, he⟩ := hlo.head
    have hi0 : idx r.tr < L.tot 0 := by omega
    have hi : idx r.tr < L.n := by unfold Lay.n; omega
    obtain ⟨s, r1, r2, hh, hsec, hsk, _, hA2, hi2, hq2⟩ := recordStep_decode msg L hL r hA hi x hw ho he .ref
    have hs : s = 0 := by
      rw [SecOf.eq_secAt hA.tinv hsec]
      simp [secAt, hi0]
    subst hs
    have hrd := (reads_of_idx hA.tinv).1
    have hcnt : r.recordsCountIn 0 = .ok (L.tot 0 - idx r.tr) := by
      simp only [Reader.recordsCountIn, hA.live, Bool.not_false, if_true, recordsLeftIn_eq hA.tinv 0 (by omega), hrd]
      congr 2; omega
    cases fuel with
    | zero => omega
    | succ f =>
      have hpos : L.tot 0 - idx r.tr > 0 := by omega
      obtain ⟨r', hrec, hA', hi', hq'⟩ := ih r2 ((r.cur, x.marker 0) :: acc) f hA2 (by omega) (by omega) (by
        rw [hi2]; exact hlo.tail)
      refine ⟨r', ?_, hA', hi', by rw [hq', hq2]⟩
      rw [readAnswerHeaders]
      simp only [hcnt, hpos, if_true, hh, hnameOf, hsk, hrec]
      have hc : r.cur = Cur.withPos msg x.off := by rw [hA.cur, ho]
      simp [hdrOf, hc]

/-- **`read_opt` over a well-formed message** returns the first OPT record behind the answers -/
theorem readOpt_decode (msg : Bytes) (L : Lay) (hL : L.WF) :
    ∀ (xs : List RecSpec) (r : Reader) (fuel : Nat), AtIndex msg L r →
      idx r.tr + xs.length = L.n → xs.length < fuel → LaidOut msg L (idx r.tr) xs →
      ∃ r', readOpt msg r fuel = (.ok (optOf xs), r') ∧ RInv msg r' := by
  intro xs
  induction xs with
  | nil =>
    intro r fuel hA hn _ _
    simp only [List.length_nil, Nat.add_zero] at hn
    have hcnt : r.recordsCount = .ok 0 := by
      simp only [Reader.recordsCount, hA.live, Bool.not_false, if_true, recordsLeft_eq hA.tinv, hn, Nat.sub_self]
    refine ⟨r, ?_, hA.inv⟩
    cases fuel with
    | zero => simp [readOpt, optOf]
    | succ f => simp [readOpt, hcnt, optOf]
  | cons x xs ih =>
    intro r fuel hA hn hf hlo
    simp only [List.length_cons] at hn hf
    obtain ⟨hw, ho, he⟩ := hlo.head
    have hi : idx r.tr < L.n := by omega
    obtain ⟨s, r1, r2, hh, hsec, hsk, hopt, hA2, hi2, hq2⟩ := recordStep_decode msg L hL r hA hi x hw ho he .marker
    have hcnt : r.recordsCount = .ok (L.n - idx r.tr) := by
      simp only [Reader.recordsCount, hA.live, Bool.not_false, if_true, recordsLeft_eq hA.tinv]
    cases fuel with
    | zero => omega
    | succ f =>
      have hpos : L.n - idx r.tr > 0 := by omega
      rw [readOpt]
      simp only [hcnt, hpos, if_true, hh, RecSpec.marker_rtype]
      by_cases hty : x.rtype = TYPE_OPT
      · simp only [hty, if_true, hopt hty]
        refine ⟨r2, ?_, hA2.inv⟩
        simp [optOf, hty]
      · simp only [hty, if_false, hsk]
        obtain ⟨r', hrec, hinv⟩ := ih r2 f hA2 (by omega) (by omega) (by rw [hi2]; exact hlo.tail)
        refine ⟨r', ?_, hinv⟩
        rw [hrec]
        have : (x.rtype == TYPE_OPT) = false := by simpa using hty
        simp [optOf, this]

/-- **`the_question_ref` over a well-formed single-question message** -/
theorem theQuestionRef_step (msg : Bytes) (L : Lay) (hL : L.WF) (r : Reader) (hQ : QIndex msg L r)
    (h0 : r.tr.qd.read = 0) (h1 : L.qd = 1) (q : QSpec) (hq : q.WF msg) (hoff : q.off = L.qEnd 0)
    (hend : q.endp = L.qEnd 1) :
    ∃ r', r.question msg .theQuestionRef = (.ok (.ref { qname := r.cur, qtype := q.qtype, qclass := q.qclass }), r') ∧
      QIndex msg L r' ∧ r'.tr.qd.read = 1 := by
  obtain ⟨hname, hfit, hty, hcl⟩ := hq
  have hf := hQ.inv.2
  have horig := hQ.orig
  have hlim : r.cur.lim = msg.size := by
    simp only [Cur.full, horig, Option.getD_none] at hf; exact hf
  have hpos : r.cur.pos = q.off := by rw [hQ.pos, hoff, h0]
  have hdec := (question_decode msg r.cur (by rw [hlim]; exact Nat.le_refl _) q.labels q.nxt
    (by rw [hlim, hpos]; exact hname) (by rw [hlim]; exact hfit)).2
  obtain ⟨t', hqr, hT, hsec, hrd, _⟩ := questionRead_spec L hL r.tr hQ.tinv (by omega)
  rw [h0] at hqr hrd
  rw [← hend] at hqr
  have hleft : r.tr.questionsLeft = .ok 1 := by
    have htq := hQ.tinv.tq
    have hng : ¬ r.tr.qd.read > L.qd := by omega
    simp only [Tracker.questionsLeft, Counts.left, htq, h0, h1]
    rfl
  have he : r.question msg .theQuestionRef =
      (.ok (.ref { qname := r.cur, qtype := q.qtype, qclass := q.qclass }),
       { r with cur := r.cur.setPos (q.nxt + 4), tr := t' }) := by
    unfold Reader.question
    simp only [hQ.live, Bool.false_eq_true, if_false, hleft]
    simp only [show (QKind.theQuestionRef == QKind.theQuestion || QKind.theQuestionRef == QKind.theQuestionRef) = true from by decide,
      show (QKind.theQuestionRef == QKind.question || QKind.theQuestionRef == QKind.theQuestion) = false from by decide,
      Bool.not_true, Bool.false_and, Bool.true_and, Bool.false_eq_true, if_false, bne_self_eq_false]
    simp only [Reader.readQ, Bool.false_eq_true, if_false, Reader.onCur, hdec, Reader.afterQ, Cur.setPos, ← hty, ← hcl]
    have hqr' : r.tr.questionRead (q.nxt + 4) = .ok t' := hqr
    simp only [hqr', hQ.live]
  refine ⟨_, he, ?_, hrd⟩
  have hok := question_ok (msg := msg) hQ.inv .theQuestionRef
  rw [he] at hok
  refine ⟨hok.2, horig, hQ.live, hT, by rw [idx_congr hsec]; exact hQ.idx0, ?_, by simp only; omega⟩
  simp only [Cur.setPos, hrd]
  exact hend

/-- **the prefix of `from_msg` over a well-formed single-question response**: it returns the header,
    a reference to the question at offset 12, the answer-section records as (owner reference, marker)
    in wire order, and the first OPT record behind the answers -/
theorem fromMsgPrefix_decode (msg : Bytes) (h : Header) (q : QSpec) (rs : List RecSpec)
    (hm : MsgAt msg h [q] rs) (hqr : flags_qr h.flags = true) (htc : flags_tc h.flags = false) :
    ∃ r, fromMsgPrefix msg = .ok (Prefix.mk h (QuestionRef.mk (Cur.mk msg.size 12 none) q.qtype q.qclass)
        ((rs.take h.an).map (hdrOf msg)) (optOf (rs.drop h.an)) r) ∧ RInv msg r := by
  obtain ⟨qe, e, hqs, hrs⟩ := hm.layout
  have hL := layOf_wf msg h [q] rs hm qe e hqs hrs
  obtain ⟨hqend, _, _, hqall⟩ := hqs.chain
  obtain ⟨hr0, _, _, hrall, _⟩ := hrs.chain
  have hnew : Reader.new msg = .ok { cur := Cur.new msg, tr := Tracker.default, done := false } := by
    have : ¬ msg.size > 65535 := by have := hm.size; omega
    simp [Reader.new, this]
  have hok : Cur.OK msg (Cur.new msg) := Cur.OK.new msg
  have hhf := header_fields msg (Cur.new msg) hok (by simp only [Cur.new]; have := hm.hlen; omega)
  have hhf' : readHeader msg (Cur.new msg) = (.ok h, { lim := msg.size, pos := 12, orig := none }) := by
    rw [hhf]
    have e1 := hm.id; have e2 := hm.flags; have e3 := hm.qd; have e4 := hm.an; have e5 := hm.ns; have e6 := hm.ar
    obtain ⟨id, fl, qd, an, ns, ar⟩ := h
    simp only at e1 e2 e3 e4 e5 e6
    simp only [Cur.new, Nat.zero_add, e1, e2, e3, e4, e5, e6]
  let r0 : Reader := { cur := Cur.new msg, tr := Tracker.default, done := false }
  let r1 : Reader := { cur := { lim := msg.size, pos := 12, orig := none }, tr := Tracker.default.set h, done := false }
  have hr0inv : RInv msg r0 := RInv.new hnew
  have hhead : r0.header msg = (.ok h, r1) := by
    simp only [Reader.header, Reader.onCur, hhf', markDone, r0, r1]
  have hr1inv : RInv msg r1 := by
    have := header_ok (msg := msg) hr0inv; rw [hhead] at this; exact this.2
  let L := layOf h [q] rs e
  have hqd1 : h.qd = 1 := by rw [hm.nq]; rfl
  have hT1 : TInv L r1.tr := by
    apply TInv.init L r1.tr
    · rfl
    · simp [r1, Tracker.set, upd, L, layOf]
    · simp [r1, Tracker.set, upd, L, layOf]
    · simp [r1, Tracker.set, upd, L, layOf]
    · intro j; simp only [r1, Tracker.set, Tracker.default, upd]; split <;> (try split) <;> (try split) <;> rfl
    · intro j; rfl
  have hQ1 : QIndex msg L r1 :=
    ⟨hr1inv, rfl, rfl, hT1, by simp [idx, r1, Tracker.set, Tracker.default, upd], rfl, Nat.zero_le _⟩
  -- the question
  obtain ⟨q0, hq0, hqw, hqo, hqe⟩ := hqall 0 (by simp)
  simp only [List.getElem?_cons_zero, Option.some.injEq] at hq0
  subst hq0
  obtain ⟨r2, hque, hQ2, hrd2⟩ := theQuestionRef_step msg L hL r1 hQ1 rfl hqd1 q hqw hqo hqe
  have hA2 : AtIndex msg L r2 := by
    refine ⟨hQ2.inv, hQ2.orig, ?_, hQ2.tinv, hQ2.live⟩
    rw [hQ2.pos, hrd2, hQ2.idx0]
    have := hL.q0
    rw [this]
    show L.qEnd 1 = L.qEnd L.qd
    rw [show L.qd = 1 from hqd1]
  -- the layout of the records
  have hlay : LaidOut msg L 0 rs := by
    intro j hj
    obtain ⟨x, hx, hw, ho, he⟩ := hrall j hj
    exact ⟨x, hx, hw, by rw [Nat.zero_add]; exact ho, by rw [Nat.zero_add]; exact he⟩
  have hlen : h.an + h.ns + h.ar = rs.length := hm.nr
  have hlayT : LaidOut msg L (idx r2.tr) (rs.take h.an) := by
    rw [hQ2.idx0]
    intro j hj
    have hj' : j < h.an ∧ j < rs.length := by simp at hj; omega
    obtain ⟨x, hx, hw, ho, he⟩ := hlay j hj'.2
    exact ⟨x, by rw [List.getElem?_take]; simp [hj'.1, hx], hw, ho, he⟩
  obtain ⟨r3, hah, hA3, hi3, hq3⟩ := readAnswerHeaders_decode msg L hL (rs.take h.an) r2 [] (r2.sFuel 0) hA2
    (by rw [hQ2.idx0]; simp only [List.length_take, Nat.zero_add]; show min h.an rs.length = h.an; omega)
    (by rw [sFuel_eq hA2.tinv, hQ2.idx0]; simp only [List.length_take]; show min h.an rs.length < (h.an + h.ns + h.ar) - 0 + 1; omega)
    hlayT
  have hlayD : LaidOut msg L (idx r3.tr) (rs.drop h.an) := by
    rw [hi3]
    show LaidOut msg L h.an (rs.drop h.an)
    intro j hj
    have hj' : h.an + j < rs.length := by simp at hj; omega
    obtain ⟨x, hx, hw, ho, he⟩ := hlay (h.an + j) hj'
    exact ⟨x, by rw [List.getElem?_drop]; exact hx, hw, by rw [ho]; congr 1; omega, by rw [he]; congr 1; omega⟩
  obtain ⟨r4, hop, hinv4⟩ := readOpt_decode msg L hL (rs.drop h.an) r3 (r3.sFuel 0) hA3
    (by rw [hi3]; simp only [List.length_drop]; show h.an + (rs.length - h.an) = h.an + h.ns + h.ar; omega)
    (by rw [sFuel_eq hA3.tinv, hi3]; simp only [List.length_drop]; show rs.length - h.an < (h.an + h.ns + h.ar) - h.an + 1; omega)
    hlayD
  refine ⟨r4, ?_, hinv4⟩
  have hhead' : Reader.header msg { cur := Cur.new msg, tr := Tracker.default, done := false } = (.ok h, r1) := hhead
  unfold fromMsgPrefix
  simp only [hnew, hhead', hqr, Bool.not_true, Bool.false_eq_true, if_false, htc, hque, hah, hop, List.reverse_nil,
    List.nil_append]
  rfl

end Rsdns.C06
