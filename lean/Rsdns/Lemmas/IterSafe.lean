/-
  Rsdns.Lemmas.IterSafe — the iterator API (`MessageIterator::new`, `questions()`, `question()`,
  `records()`) returns values or errors on EVERY byte string; header counts are 16-bit, so the
  `Records` tracker starts sane and `read_impl` keeps it so.
-/
import Rsdns.Lemmas.ReaderSafe
import Rsdns.Model.RecordSet
set_option linter.unusedVariables false
namespace Rsdns
open Generated Spec

/-! ### `MessageIterator` -/

theorem skipN_ftriple (msg : Bytes) (L : Nat) (O : Option Nat) (f : CurM Unit) (hf : FTriple msg L O f) :
    ∀ n, FTriple msg L O (skipN f n)
  | 0 => FTriple.pure ()
  | n + 1 => by
    unfold skipN
    exact FTriple.bind hf (fun _ => skipN_ftriple msg L O f hf n)

/-- header counts as decoded from the wire are 16-bit values -/
def Header.Small (h : Header) : Prop := h.qd < 65536 ∧ h.an < 65536 ∧ h.ns < 65536 ∧ h.ar < 65536

theorem readHeader_small (msg : Bytes) (c c' : Cur) (hc : Cur.OK msg c) (h : Header) (hh : readHeader msg c = (.ok h, c')) :
    h.Small := by
  rcases readHeader_spec msg c hc with ⟨hd, he, hle⟩ | he
  · have hf := C02.header_fields msg c hc hle
    rw [hh] at hf
    simp only [Prod.mk.injEq, Res.ok.injEq] at hf
    rw [hf.1]
    exact ⟨C02.beNat2_lt _ _, C02.beNat2_lt _ _, C02.beNat2_lt _ _, C02.beNat2_lt _ _⟩
  · rw [hh] at he; simp at he

theorem MsgIter.new_safe (msg : Bytes) :
    (MsgIter.new msg).safe ∧ ∀ mi, MsgIter.new msg = .ok mi → mi.header.Small := by
  unfold MsgIter.new
  have hc0 := Cur.OK.new msg
  rcases readHeader_spec msg (Cur.new msg) hc0 with ⟨hd, he, hle⟩ | he
  · have hsm := readHeader_small msg _ _ hc0 hd he
    rw [he]
    simp only
    have hw := Cur.OK.withPos msg HEADER_LENGTH
    have := skipN_ftriple msg _ _ (skipQuestion msg) (skipQuestion_ftriple msg _ _) hd.qd _ (Frame.of hw)
    cases hs : skipN (skipQuestion msg) hd.qd (Cur.withPos msg HEADER_LENGTH) with
    | mk res c =>
      rw [hs] at this
      cases res with
      | ok u => exact ⟨trivial, fun mi hmi => by simp only [Res.ok.injEq] at hmi; rw [← hmi]; exact hsm⟩
      | err e => exact ⟨trivial, fun mi hmi => by simp at hmi⟩
      | panic p => exact this.elim
      | ub => exact this.elim
  · rw [he]
    exact ⟨trivial, fun mi hmi => by simp at hmi⟩

theorem questionsDrain_safe (msg : Bytes) : ∀ (n : Nat) (c : Cur) (acc : List (Except Err Question)), Cur.OK msg c →
    (questionsDrain msg c n acc).safe
  | 0, c, acc, hc => trivial
  | n + 1, c, acc, hc => by
    unfold questionsDrain
    have := readQuestion_ftriple msg _ _ c (Frame.of hc)
    cases hq : readQuestion msg c with
    | mk res c' =>
      rw [hq] at this
      cases res with
      | ok q => exact questionsDrain_safe msg n c' _ this.1
      | err e => trivial
      | panic p => exact this.elim
      | ub => exact this.elim

theorem MsgIter.questions_safe (msg : Bytes) (mi : MsgIter) : (mi.questions msg).safe :=
  questionsDrain_safe msg _ _ _ (Cur.OK.withPos msg _)

theorem MsgIter.question_safe (msg : Bytes) (mi : MsgIter) : (mi.question msg).safe := by
  unfold MsgIter.question
  split
  · trivial
  · have := readQuestion_ftriple msg _ _ _ (Frame.of (Cur.OK.withPos msg HEADER_LENGTH))
    cases hq : readQuestion msg (Cur.withPos msg HEADER_LENGTH) with
    | mk res c' =>
      rw [hq] at this
      cases res <;> first | trivial | exact this.elim

theorem recHdr_ftriple (msg : Bytes) (L : Nat) (O : Option Nat) :
    FTriple msg L O (do
      let _ ← CurM.skipName msg
      let rtype ← CurM.u16be msg
      let rclass ← CurM.u16be msg
      let ttl ← CurM.u32be msg
      let rdlen ← CurM.u16be msg
      pure (rtype, rclass, ttl, rdlen)) :=
  FTriple.bind (FTriple.skipName msg L O) (fun _ =>
    FTriple.bind (FTriple.u16be msg L O) (fun _ =>
    FTriple.bind (FTriple.u16be msg L O) (fun _ =>
    FTriple.bind (FTriple.u32be msg L O) (fun _ =>
    FTriple.bind (FTriple.u16be msg L O) (fun _ => FTriple.pure _)))))

/-- `Records::read_impl`: a record, the end, or an error — from any in-message cursor and sane counters -/
theorem readImpl_safe (msg : Bytes) : ∀ (fuel : Nat) (cur : Cur) (tr : Tracker), Cur.OK msg cur → CSane tr →
    (Records.readImpl msg cur tr fuel).1.safe ∧ Cur.OK msg (Records.readImpl msg cur tr fuel).2.1 ∧
      CSane (Records.readImpl msg cur tr fuel).2.2
  | 0, cur, tr, hc, ht => ⟨trivial, hc, ht⟩
  | fuel + 1, cur, tr, hc, ht => by
    unfold Records.readImpl
    have hns := nextSection_facts tr cur.pos
    cases hn : tr.nextSection cur.pos with
    | mk so tr1 =>
      rw [hn] at hns
      cases so with
      | none => simp only at hns; subst hns; exact ⟨trivial, hc, ht⟩
      | some s =>
        obtain ⟨hs3, hlt, hsec, hqd⟩ := hns
        have ht1 : CSane tr1 := ht.congr hsec hqd
        have hlt1 : (tr1.sec s).read < (tr1.sec s).total := by rw [hsec]; exact hlt
        simp only
        have hH := recHdr_ftriple msg cur.lim cur.orig cur (Frame.of hc)
        generalize hh : (do
          let _ ← CurM.skipName msg
          let rtype ← CurM.u16be msg
          let rclass ← CurM.u16be msg
          let ttl ← CurM.u32be msg
          let rdlen ← CurM.u16be msg
          pure (rtype, rclass, ttl, rdlen) : CurM (Nat × Nat × Nat × Nat)) cur = hdr at hH ⊢
        obtain ⟨res, c1⟩ := hdr
        cases res with
        | err e => exact ⟨trivial, hH.1, ht1⟩
        | panic p => exact hH.elim
        | ub => exact hH.elim
        | ok v =>
          obtain ⟨rtype, rclass, ttl, rdlen⟩ := v
          have hc1 : Cur.OK msg c1 := hH.1
          simp only
          split
          · -- skipped record
            have hsk := FTriple.skip msg c1.lim c1.orig rdlen c1 (Frame.of hc1)
            cases hs : CurM.skip rdlen c1 with
            | mk res2 c2 =>
              rw [hs] at hsk
              cases res2 with
              | ok u =>
                simp only
                obtain ⟨t', he, hc'⟩ := ht1.sectionRead s hs3 hlt1 c2.pos
                rw [he]
                exact readImpl_safe msg fuel c2 t' hsk.1 hc'
              | err e => exact ⟨trivial, hsk.1, ht1⟩
              | panic p => exact hsk.elim
              | ub => exact hsk.elim
          · split
            · exact ⟨trivial, hc1, ht1⟩
            · rename_i t hcode
              have hrn := readName_safe .inline msg _ (hc1.cloneWithPos cur.pos)
              cases hr : readName .inline msg (c1.cloneWithPos cur.pos) with
              | err e => exact ⟨trivial, hc1, ht1⟩
              | panic p => rw [hr] at hrn; exact hrn.elim
              | ub => rw [hr] at hrn; exact hrn.elim
              | ok v2 =>
                obtain ⟨name, _⟩ := v2
                simp only
                have hg := CurM.Good.readRData t msg rdlen c1 hc1
                have hsp := readRData_spec t msg rdlen c1 hc1
                cases hrd : readRData t msg rdlen c1 with
                | mk res3 c2 =>
                  rw [hrd] at hg hsp
                  cases res3 with
                  | ok rdata =>
                    simp only
                    obtain ⟨t', he, hc'⟩ := ht1.sectionRead s hs3 hlt1 c2.pos
                    rw [he]
                    exact ⟨trivial, hg.2.1, hc'⟩
                  | err e => exact ⟨trivial, hg.2.1, ht1⟩
                  | panic p => exact hsp.elim
                  | ub => exact hsp.elim

theorem recordsDrain_safe (msg : Bytes) : ∀ (fuel : Nat) (cur : Cur) (tr : Tracker) (acc : List (Except Err Record)),
    Cur.OK msg cur → CSane tr → (recordsDrain msg cur tr fuel acc).safe
  | 0, _, _, _, _, _ => trivial
  | fuel + 1, cur, tr, acc, hc, ht => by
    unfold recordsDrain
    have h := readImpl_safe msg (trackerLeft tr + 1) cur tr hc ht
    cases hr : Records.readImpl msg cur tr (trackerLeft tr + 1) with
    | mk res rest =>
      obtain ⟨c, t⟩ := rest
      rw [hr] at h
      cases res with
      | ok o =>
        cases o with
        | none => trivial
        | some rcd => exact recordsDrain_safe msg fuel c t _ h.2.1 h.2.2
      | err e => trivial
      | panic p => exact h.1.elim
      | ub => exact h.1.elim

theorem Tracker.new_sane (h : Header) (hs : h.Small) : CSane (Tracker.new h) := by
  obtain ⟨a, b, c, d⟩ := hs
  refine ⟨Nat.zero_le _, by simp only [Tracker.new]; omega, ?_, ?_⟩
  · intro j
    simp only [Tracker.new]
    split <;> (try split) <;> (try split) <;> simp
  · intro j hj
    simp only [Tracker.new]
    split <;> (try split) <;> (try split) <;> simp only <;> omega

theorem MsgIter.records_safe (msg : Bytes) (mi : MsgIter) (h : MsgIter.new msg = .ok mi) : (mi.records msg).safe :=
  recordsDrain_safe msg _ _ _ _ (Cur.OK.withPos msg _) (Tracker.new_sane _ ((MsgIter.new_safe msg).2 mi h))

end Rsdns
