/-
  Rsdns.Lemmas.EqStr — validity of labels and name texts does not depend on letter case
  (`checkLabel_congr`, `check_congr`), the parsers succeed exactly on valid strings with the canonical
  spelling (`parse_iff`), and `PartialEq<&str>` case by case (`eqstr_core`).
  Helpers of `Rsdns.Props.C18Str.eqstr_parse`.
-/
import Rsdns.Props.C18
import Rsdns.Props.C05
import Rsdns.Lemmas.NameRef
import Rsdns.Lemmas.Encode
set_option linter.unusedVariables false
namespace Rsdns.C18
open Rsdns Generated Spec

/-! ### validity of a label does not depend on letter case -/

def lowerNat (n : Nat) : Nat := if 65 ≤ n ∧ n ≤ 90 then n + 32 else n

theorem lowerByte_toNat (b : UInt8) : (lowerByte b).toNat = lowerNat b.toNat := by
  unfold lowerByte lowerNat
  have := b.toNat_lt
  split
  · simp only [UInt8.toNat_add, UInt8.reduceToNat]; omega
  · rfl

theorem char_ok_lower_nat : ∀ n, n < 256 → label_char_ok (lowerNat n) = label_char_ok n := by decide +kernel

theorem char_ok_lower (b : UInt8) : label_char_ok (lowerByte b).toNat = label_char_ok b.toNat := by
  rw [lowerByte_toNat]; exact char_ok_lower_nat _ b.toNat_lt

theorem hyphen_lower_nat : ∀ n, n < 256 → (lowerNat n = 45 ↔ n = 45) := by decide +kernel

theorem hyphen_lower (b : UInt8) : (lowerByte b).toNat = 45 ↔ b.toNat = 45 := by
  rw [lowerByte_toNat]; exact hyphen_lower_nat _ b.toNat_lt

/-- what `check_label_bytes` accepts -/
theorem checkLabel_iff (l : Bytes) :
    checkLabel l = .ok () ↔ 0 < l.size ∧ l.size ≤ 63 ∧ (∀ b ∈ l.toList, label_char_ok b.toNat = true) ∧
      (l.getD 0 0).toNat ≠ 45 ∧ (l.getD (l.size - 1) 0).toNat ≠ 45 := by
  unfold checkLabel
  by_cases h0 : l.size = 0
  · simp [h0]
  · simp only [h0, dite_false]
    by_cases hbig : l.size > DOMAIN_NAME_LABEL_MAX_LENGTH
    · simp only [hbig, if_true]
      have : ¬ l.size ≤ 63 := by simp only [DOMAIN_NAME_LABEL_MAX_LENGTH] at hbig; omega
      simp [this]
    · simp only [hbig, if_false]
      have hle : l.size ≤ 63 := by simp only [DOMAIN_NAME_LABEL_MAX_LENGTH] at hbig; omega
      have hpos : 0 < l.size := Nat.pos_of_ne_zero h0
      cases hf : l.toList.find? (fun b => !(label_char_ok b.toNat)) with
      | some b =>
        simp only
        have hb := List.find?_some hf
        have hm := List.mem_of_find?_eq_some hf
        constructor
        · intro h; cases h
        · intro ⟨_, _, hall, _⟩
          have := hall b hm
          simp [this] at hb
      | none =>
        simp only
        have hall : ∀ b ∈ l.toList, label_char_ok b.toNat = true := by
          intro b hb
          have := List.find?_eq_none.mp hf b hb
          simpa using this
        have e0 : l[0]'hpos = l.getD 0 0 := by simp [Array.getD, hpos]
        have e1 : l[l.size - 1]'(by omega) = l.getD (l.size - 1) 0 := by
          have : l.size - 1 < l.size := by omega
          simp [Array.getD, this]
        simp only [e0, e1, label_first_bad, label_last_bad, beq_iff_eq]
        generalize l.getD 0 0 = x
        generalize l.getD (l.size - 1) 0 = y
        have hall' : ∀ b ∈ l, label_char_ok b.toNat = true := fun b hb => hall b (by simpa using hb)
        by_cases hx : x.toNat = 45
        · simp [hx]
        · by_cases hy : y.toNat = 45
          · simp [hx, hy]
          · simp only [hx, hy, if_false, true_iff, ne_eq, not_false_eq_true, and_true]
            exact ⟨hpos, hle, hall⟩

theorem getD_eq (l : Bytes) (i : Nat) (h : i < l.size) : l.getD i 0 = l[i] := by simp [Array.getD, h]

theorem lower_pointwise {l l' : Bytes} (h : eqIgnoreCase l l' = true) :
    l.size = l'.size ∧ ∀ i (h1 : i < l.size) (h2 : i < l'.size), lowerByte l[i] = lowerByte l'[i] := by
  have hsz : l.size = l'.size := by
    simp only [eqIgnoreCase, Bool.and_eq_true, beq_iff_eq] at h; exact h.1
  have hl := (C08.eqIgnoreCase_iff l l').mp h
  refine ⟨hsz, fun i hi hi' => ?_⟩
  have := congrArg (fun L => L[i]?) hl
  simp only [C08.lowerL, List.getElem?_map, Array.getElem?_toList] at this
  rw [Array.getElem?_eq_getElem hi, Array.getElem?_eq_getElem hi'] at this
  simpa using this

theorem checkLabel_congr {l l' : Bytes} (h : eqIgnoreCase l l' = true) (hc : checkLabel l = .ok ()) :
    checkLabel l' = .ok () := by
  obtain ⟨hsz, hpt⟩ := lower_pointwise h
  rw [checkLabel_iff] at hc ⊢
  obtain ⟨hpos, hle, hall, hf, hl⟩ := hc
  refine ⟨by omega, by omega, ?_, ?_, ?_⟩
  · intro b' hb'
    obtain ⟨i, hi, rfl⟩ := List.getElem_of_mem hb'
    simp only [Array.length_toList] at hi
    have hi1 : i < l.size := by omega
    have e := hpt i hi1 hi
    simp only [Array.getElem_toList]
    rw [← char_ok_lower, ← e, char_ok_lower]
    exact hall _ (by simp)
  · have e := hpt 0 hpos (by omega)
    rw [getD_eq l 0 hpos] at hf
    rw [getD_eq l' 0 (by omega)]
    intro h45
    apply hf
    rw [← hyphen_lower, e, hyphen_lower]
    exact h45
  · have e := hpt (l.size - 1) (by omega) (by omega)
    rw [getD_eq l _ (by omega)] at hl
    rw [getD_eq l' _ (by omega)]
    intro h45
    apply hl
    rw [← hyphen_lower, e, hyphen_lower]
    simp only [hsz]
    exact h45

theorem eqLabels_mem : ∀ (la lb : List Bytes), C08.eqLabels la lb = true →
    ∀ l' ∈ lb, ∃ l ∈ la, eqIgnoreCase l l' = true
  | [], [], _, l', h' => by cases h'
  | [], _ :: _, h, _, _ => by simp [C08.eqLabels] at h
  | _ :: _, [], h, _, _ => by simp [C08.eqLabels] at h
  | x :: xs, y :: ys, h, l', h' => by
    simp only [C08.eqLabels, Bool.and_eq_true] at h
    rcases List.mem_cons.mp h' with rfl | hm
    · exact ⟨x, List.mem_cons_self .., h.1⟩
    · obtain ⟨l, hl, he⟩ := eqLabels_mem xs ys h.2 l' hm
      exact ⟨l, List.mem_cons_of_mem _ hl, he⟩

theorem last_dot_congr {a b : Bytes} (h : eqIgnoreCase a b = true) (h0 : a.size ≠ 0) :
    (a.getD (a.size - 1) 0 = DOT ↔ b.getD (b.size - 1) 0 = DOT) := by
  obtain ⟨hsz, hpt⟩ := lower_pointwise h
  have e := hpt (a.size - 1) (by omega) (by omega)
  rw [getD_eq a _ (by omega), getD_eq b _ (by omega)]
  have hb : b.size - 1 = a.size - 1 := by omega
  simp only [hb]
  constructor
  · intro ha
    have : lowerByte b[a.size - 1] = 46 := by rw [← e, ha]; decide
    exact (C08.lowerByte_dot _).mp this
  · intro hb'
    have : lowerByte a[a.size - 1] = 46 := by rw [e, hb']; decide
    exact (C08.lowerByte_dot _).mp this

theorem eqIgnoreCase_push {a b : Bytes} (h : eqIgnoreCase a b = true) (x : UInt8) :
    eqIgnoreCase (a.push x) (b.push x) = true := by
  rw [C08.eqIgnoreCase_iff] at h ⊢
  simp only [C08.lowerL, Array.toList_push, List.map_append] at h ⊢
  rw [h]

theorem canon_congr {a b : Bytes} (h : eqIgnoreCase a b = true) (h0 : a.size ≠ 0) :
    eqIgnoreCase (C11.canon a) (C11.canon b) = true := by
  have hd := last_dot_congr h h0
  unfold C11.canon
  by_cases ha : a.getD (a.size - 1) 0 = DOT
  · have hb := hd.mp ha
    simp [ha, hb, h]
  · have hb : ¬ b.getD (b.size - 1) 0 = DOT := fun x => ha (hd.mpr x)
    simp only [bne_iff_ne, ne_eq, ha, hb, not_false_eq_true, if_true]
    exact eqIgnoreCase_push h DOT

/-- **validity of a name text does not depend on letter case** -/
theorem check_congr {a b : Bytes} (hc : checkNameBytes a = .ok ()) (h : eqIgnoreCase a b = true) :
    checkNameBytes b = .ok () := by
  obtain ⟨hsz, hpt⟩ := lower_pointwise h
  rw [C11.checkNameBytes_iff] at hc ⊢
  obtain ⟨h0, hc⟩ := hc
  have h0b : b.size ≠ 0 := by omega
  refine ⟨h0b, ?_⟩
  rcases hc with hr | ⟨hlab, hlen⟩
  · left
    subst hr
    have hb1 : b.size = 1 := by rw [← hsz]; rfl
    have e := hpt 0 (by decide) (by omega)
    have hb0 : b[0]'(by omega) = 46 := (C08.lowerByte_dot _).mp (by rw [← e]; decide)
    apply Array.ext
    · rw [hb1]; rfl
    · intro i h1 h2
      have : i = 0 := by omega
      subst this
      rw [hb0]; rfl
  · right
    have hcan := canon_congr h h0
    obtain ⟨ta, na⟩ := C11.labelsOf_spec a h0
    obtain ⟨tb, nb⟩ := C11.labelsOf_spec b h0b
    have heq : C08.eqLabels (C11.labelsOf a) (C11.labelsOf b) = true := by
      rw [C08.eqLabels_textOf _ _ na nb, ta, tb]
      exact (C08.eqIgnoreCase_iff _ _).mp hcan
    refine ⟨?_, ?_⟩
    · intro l' hl'
      obtain ⟨l, hl, he⟩ := eqLabels_mem _ _ heq l' hl'
      exact checkLabel_congr he (hlab l hl)
    · have : (C11.canon b).size = (C11.canon a).size := by
        simp only [eqIgnoreCase, Bool.and_eq_true, beq_iff_eq] at hcan
        exact hcan.1.symm
      rw [this]; exact hlen

/-! ### `name == "string"` is `name == parse("string")` -/

theorem check_root : checkNameBytes #[DOT] = .ok () := by
  simp [checkNameBytes]

theorem canon_eq (s : Bytes) : C11.canon s = (if s.getD (s.size - 1) 0 != DOT then s.push DOT else s) := rfl

/-- both parsers succeed exactly on the strings the validator accepts, with the canonical spelling -/
theorem parse_iff (k : NameKind) (s : Bytes) (P : Bytes → Prop) :
    (∃ m, parseName k s = .ok m ∧ P m) ↔ (checkNameBytes s = .ok () ∧ P (C11.canon s)) := by
  obtain ⟨h1, h2, h3, _, _⟩ := C05.parse_agree s
  have hk : (parseName k s).isOk = (checkNameBytes s).isOk := by cases k <;> assumption
  constructor
  · intro ⟨m, hm, hp⟩
    rw [hm] at hk
    have hc : checkNameBytes s = .ok () := by
      cases hcs : checkNameBytes s with
      | ok u => rfl
      | err e => rw [hcs] at hk; simp [Res.isOk] at hk
      | panic p => rw [hcs] at hk; simp [Res.isOk] at hk
      | ub => rw [hcs] at hk; simp [Res.isOk] at hk
    exact ⟨hc, by rw [canon_eq, ← h3 k m hm]; exact hp⟩
  · intro ⟨hc, hp⟩
    rw [hc] at hk
    cases hps : parseName k s with
    | ok m => exact ⟨m, rfl, by rw [h3 k m hps, ← canon_eq]; exact hp⟩
    | err e => rw [hps] at hk; simp [Res.isOk] at hk
    | panic p => rw [hps] at hk; simp [Res.isOk] at hk
    | ub => rw [hps] at hk; simp [Res.isOk] at hk

theorem eq_root_of {n : Bytes} (h : eqIgnoreCase n #[DOT] = true) : n = #[DOT] := by
  obtain ⟨hsz, hpt⟩ := lower_pointwise h
  have h1 : n.size = 1 := hsz
  have e := hpt 0 (by omega) (by decide)
  have h0 : n[0]'(by omega) = 46 := (C08.lowerByte_dot _).mp (by rw [e]; decide)
  apply Array.ext
  · exact h1
  · intro i a b
    have : i = 0 := by omega
    subst this
    rw [h0]; rfl

theorem eqIgnoreCase_symm {a b : Bytes} (h : eqIgnoreCase a b = true) : eqIgnoreCase b a = true := by
  rw [C08.eqIgnoreCase_iff] at h ⊢; exact h.symm

/-- a name text accepted with a root dot appended is accepted without it -/
theorem check_unpush {s : Bytes} (h0 : s.size ≠ 0) (hd : s.getD (s.size - 1) 0 ≠ DOT)
    (hc : checkNameBytes (s.push DOT) = .ok ()) : checkNameBytes s = .ok () := by
  rw [C11.checkNameBytes_iff] at hc ⊢
  obtain ⟨_, hc⟩ := hc
  refine ⟨h0, Or.inr ?_⟩
  have hp0 : (s.push DOT).size ≠ 0 := by simp
  rcases hc with hr | ⟨hlab, hlen⟩
  · have := congrArg Array.size hr
    simp only [Array.size_push] at this
    have h1 : (#[DOT] : Bytes).size = 1 := rfl
    omega
  · have hcp : C11.canon (s.push DOT) = s.push DOT := C11.canon_of_dot _ (C11.getD_push_last s DOT)
    have hcs : C11.canon s = s.push DOT := by
      simp only [C11.canon, bne_iff_ne, ne_eq, hd, not_false_eq_true, if_true]
    obtain ⟨t1, n1⟩ := C11.labelsOf_spec (s.push DOT) hp0
    obtain ⟨t2, n2⟩ := C11.labelsOf_spec s h0
    have hlabs : C11.labelsOf (s.push DOT) = C11.labelsOf s :=
      C11.textOf_inj _ _ n1 n2 (by rw [t1, t2, hcp, hcs])
    exact ⟨by rw [← hlabs]; exact hlab, by rw [hcs, ← hcp]; exact hlen⟩

theorem split_last {n : Bytes} (h0 : n.size ≠ 0) (hd : n.getD (n.size - 1) 0 = DOT) :
    n = (n.extract 0 (n.size - 1)).push DOT := by
  apply Array.ext
  · simp only [Array.size_push, Array.size_extract]; omega
  · intro i h1 h2
    by_cases hi : i < n.size - 1
    · rw [Array.getElem_push_lt (by simp only [Array.size_extract]; omega)]
      simp only [Array.getElem_extract, Nat.zero_add]
    · have hi' : i = n.size - 1 := by omega
      subst hi'
      rw [Array.getElem_push]
      have hnl : ¬ (n.size - 1 < (n.extract 0 (n.size - 1)).size) := by simp only [Array.size_extract]; omega
      rw [dif_neg hnl]
      rw [getD_eq n _ (by omega)] at hd
      exact hd

theorem eqIgnoreCase_unpush {a b : Bytes} {x : UInt8} (h : eqIgnoreCase (a.push x) (b.push x) = true) :
    eqIgnoreCase a b = true := by
  rw [C08.eqIgnoreCase_iff] at h ⊢
  simp only [C08.lowerL, Array.toList_push, List.map_append, List.map_cons, List.map_nil] at h ⊢
  exact List.append_cancel_right h

theorem eqstr_core (n s : Bytes) (hv : checkNameBytes n = .ok ()) (hd : n.getD (n.size - 1) 0 = DOT) :
    nameEqStr n s = true ↔ (checkNameBytes s = .ok () ∧ nameEq n (C11.canon s) = true) := by
  have hn0 : n.size ≠ 0 := ((C11.checkNameBytes_iff n).mp hv).1
  have hsplit := split_last hn0 hd
  unfold nameEqStr nameEq
  simp only
  by_cases hl : (n == #[DOT]) = true
  · have hln : n = #[DOT] := by simpa using hl
    by_cases hr : (s == #[DOT]) = true
    · have hrs : s = #[DOT] := by simpa using hr
      subst hln; subst hrs
      simp [check_root, C11.canon, C08.eqIgnoreCase_refl]
    · have hrf : (s == #[DOT]) = false := by simpa using hr
      rw [hl, hrf]
      simp only [Bool.and_false, Bool.false_eq_true, if_false, show (true != false) = true from rfl, if_true, false_iff,
        not_and]
      intro hc hq
      subst hln
      have hcs := eq_root_of (eqIgnoreCase_symm hq)
      -- canon s = "." forces s = "."
      apply hr
      have hs0 : s.size ≠ 0 := ((C11.checkNameBytes_iff s).mp hc).1
      unfold C11.canon at hcs
      by_cases hsd : (s.getD (s.size - 1) 0 != DOT) = true
      · rw [if_pos hsd] at hcs
        have := congrArg Array.size hcs
        simp only [Array.size_push] at this
        have h1 : (#[DOT] : Bytes).size = 1 := rfl
        omega
      · rw [if_neg hsd] at hcs
        simp [hcs]
  · by_cases hr : (s == #[DOT]) = true
    · have hrs : s = #[DOT] := by simpa using hr
      have hlf : (n == #[DOT]) = false := by simpa using hl
      rw [hlf, hr]
      simp only [Bool.false_and, Bool.false_eq_true, if_false, show (false != true) = true from rfl, if_true, false_iff,
        not_and]
      intro _ hq
      subst hrs
      have : C11.canon #[DOT] = #[DOT] := by decide
      rw [this] at hq
      exact hl (by simp [eq_root_of hq])
    · have hlf : (n == #[DOT]) = false := by simpa using hl
      have hrf : (s == #[DOT]) = false := by simpa using hr
      simp only [hlf, hrf, Bool.false_and, Bool.false_eq_true, if_false, bne_self_eq_false]
      by_cases he : (decide (s.size > 0) && s.getD (s.size - 1) 0 == DOT) = true
      · -- the string ends with a dot: compared as is
        have hsd : s.getD (s.size - 1) 0 = DOT := by
          simp only [Bool.and_eq_true, decide_eq_true_eq, beq_iff_eq] at he; exact he.2
        have hcan : C11.canon s = s := C11.canon_of_dot s hsd
        simp only [he, Bool.not_true, Bool.and_false, Bool.false_eq_true, if_false, hcan]
        constructor
        · intro hq; exact ⟨check_congr hv hq, hq⟩
        · intro h; exact h.2
      · have hef : (decide (s.size > 0) && s.getD (s.size - 1) 0 == DOT) = false := by simpa using he
        have hsd : s.getD (s.size - 1) 0 ≠ DOT := by
          intro hx
          by_cases hs0 : s.size = 0
          · simp [Array.getD, hs0, DOT] at hx
          · apply he
            simp only [Bool.and_eq_true, decide_eq_true_eq, beq_iff_eq]
            exact ⟨by omega, hx⟩
        have hcan : C11.canon s = s.push DOT := by
          simp only [C11.canon, bne_iff_ne, ne_eq, hsd, not_false_eq_true, if_true]
        have hnd : (decide (n.size ≠ 0) && !(decide (s.size > 0) && s.getD (s.size - 1) 0 == DOT)) = true := by
          rw [hef]; simp [hn0]
        simp only [hnd, if_true, hcan]
        constructor
        · intro hq
          have hq2 : eqIgnoreCase n (s.push DOT) = true := by
            rw [hsplit]; exact eqIgnoreCase_push hq DOT
          have hs0 : s.size ≠ 0 := by
            intro hs0
            have hsz := (lower_pointwise hq).1
            simp only [Array.size_extract] at hsz
            have hn1 : n.size = 1 := by omega
            apply hl
            have hn : n = #[DOT] := by
              apply Array.ext
              · exact hn1
              · intro i a b
                have : i = 0 := by omega
                subst this
                have := hd
                rw [getD_eq n _ (by omega)] at this
                simp only [hn1] at this
                exact this
            simp [hn]
          exact ⟨check_unpush hs0 hsd (check_congr hv hq2), hq2⟩
        · intro ⟨_, hq⟩
          rw [hsplit] at hq
          exact eqIgnoreCase_unpush hq

end Rsdns.C18
