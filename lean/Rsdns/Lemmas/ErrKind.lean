/-
  Rsdns.Lemmas.ErrKind — error provenance: no cursor-level computation (bounds, labels, pointers, names)
  ever fails with `RecordsSectionOffsetUnknown`; only `MessageReader::seek` itself produces it.
  Used by C01 `reader_safe` to know that a `seek` answering `RecordsSectionOffsetUnknown` changed nothing.
-/
import Rsdns.Lemmas.Safety
set_option linter.unusedVariables false
namespace Rsdns
open Generated Spec

/-- an error that is not `RecordsSectionOffsetUnknown` -/
def NotOU (e : Err) : Prop := ∀ s, e ≠ .offsetUnknown s

/-- the outcome is not the error `RecordsSectionOffsetUnknown` -/
def Res.nou {α : Type} : Res α → Prop
  | .err e => NotOU e
  | _ => True

@[simp] theorem nou_ok {α : Type} (x : α) : Res.nou (.ok x) := trivial
@[simp] theorem nou_panic {α : Type} (p : PanicKind) : Res.nou (.panic p : Res α) := trivial
@[simp] theorem nou_ub {α : Type} : Res.nou (.ub : Res α) := trivial
@[simp] theorem nou_err {α : Type} (e : Err) : Res.nou (.err e : Res α) ↔ NotOU e := Iff.rfl

theorem nou_of_err {α : Type} {r : Res α} {e : Err} (h : r.nou) (he : r = .err e) : NotOU e := by
  subst he; exact h

theorem boundError_notOU (c : Cur) : NotOU c.boundError := by
  intro s; unfold Cur.boundError; split <;> simp

theorem u8_nou (msg : Bytes) (c : Cur) : Res.nou (c.u8 msg) := by
  unfold Cur.u8
  split
  · split <;> simp
  · simp [boundError_notOU]

theorem rBe_nou (msg : Bytes) (c : Cur) (n : Nat) : Res.nou (Cur.rBe msg c n) := by
  unfold Cur.rBe
  split
  · split <;> simp
  · simp [boundError_notOU]

theorem skip_nou (c : Cur) (n : Nat) : Res.nou (Cur.skip c n) := by
  unfold Cur.skip
  split
  · simp
  · simp [boundError_notOU]

theorem slice_nou (msg : Bytes) (c : Cur) (n : Nat) : Res.nou (Cur.slice msg c n) := by
  unfold Cur.slice
  split
  · split <;> simp
  · simp [boundError_notOU]

theorem checkLabel_nou (l : Bytes) : Res.nou (checkLabel l) := by
  unfold checkLabel
  split
  · simp [NotOU]
  · split
    · simp [NotOU]
    · split
      · simp [NotOU]
      · simp only
        split
        · simp [NotOU]
        · split <;> simp [NotOU]

theorem appendLabelBytes_nou (k : NameKind) (name l : Bytes) : Res.nou (appendLabelBytes k name l) := by
  unfold appendLabelBytes
  have := checkLabel_nou l
  split
  · rename_i e he; rw [he] at this; exact this
  · simp
  · simp
  · split
    · simp
    · simp only
      split
      · simp [NotOU]
      · cases k <;> simp only
        · simp
        · split
          · simp [NotOU]
          · split <;> simp [NotOU]

theorem onLabel_nou (m : Mode) (acc b : Bytes) : Res.nou (m.onLabel acc b) := by
  cases m with
  | read k => exact appendLabelBytes_nou k acc b
  | skip =>
    simp only [Mode.onLabel]
    have := checkLabel_nou b
    split
    · simp
    · rename_i e he; rw [he] at this; exact this
    · simp
    · simp

theorem iterStep_nou (msg : Bytes) (s : LSt) : Res.nou (iterStep msg s) := by
  unfold iterStep
  have h1 := u8_nou msg s.cur
  cases hu : s.cur.u8 msg with
  | err e => rw [hu] at h1; simpa using h1
  | panic p => simp
  | ub => simp
  | ok pr =>
    obtain ⟨label, c1⟩ := pr
    simp only
    split
    · simp
    · split
      · have h2 := slice_nou msg c1 label.toNat
        cases hs : Cur.slice msg c1 label.toNat with
        | err e => rw [hs] at h2; simpa using h2
        | panic p => simp
        | ub => simp
        | ok pr2 => simp
      · split
        · have h3 := u8_nou msg c1
          cases hu2 : c1.u8 msg with
          | err e => rw [hu2] at h3; simpa using h3
          | panic p => simp
          | ub => simp
          | ok pr3 =>
            simp only
            repeat' split
            all_goals simp [NotOU]
        · simp [NotOU]

theorem walk_nou (msg : Bytes) (m : Mode) (s : LSt) (acc : Bytes) (ls : List Bytes) (n : Nat) :
    Res.nou (walk msg m s acc ls n) := by
  fun_induction walk msg m s acc ls n with
  | case1 s acc ls n e hst => have := iterStep_nou msg s; rw [hst] at this; simpa using this
  | case2 => simp
  | case3 => simp
  | case4 => simp
  | case5 s acc ls n bytes p s' hst e hon =>
    have := onLabel_nou m acc bytes; rw [hon] at this; simpa using this
  | case6 => simp
  | case7 => simp
  | case8 s acc ls n bytes p s' hst acc' hon ih => exact ih
  | case9 s acc ls n s' hst ih => exact ih

theorem skipName_nou (msg : Bytes) (c : Cur) : Res.nou (skipName msg c) := by
  unfold skipName
  have := walk_nou msg .skip ⟨c, 0, 0⟩ #[] [] 0
  split
  · rename_i e hw; rw [hw] at this; simpa using this
  · simp
  · simp
  · split <;> simp

end Rsdns
