/-
  Rsdns.Lemmas.Inv — inversion lemmas shared by the history lemmas (C09), the view simulation (C08) and
  the safety lemmas (C01): what a successful cursor bind / data call / question read did, and "where
  the view that decodes more succeeds, the view that decodes less succeeds at the same place".
-/
import Rsdns.Lemmas.Pass
import Rsdns.Lemmas.Reader
set_option linter.unusedVariables false

namespace Rsdns
open Generated Spec

theorem CurM.bind_ok_inv {α β} {x : CurM α} {f : α → CurM β} {c c' : Cur} {b : β}
    (h : (x >>= f) c = (.ok b, c')) : ∃ a c1, x c = (.ok a, c1) ∧ f a c1 = (.ok b, c') := by
  change CurM.bind x f c = (.ok b, c') at h
  unfold CurM.bind at h
  cases hx : x c with
  | mk res c1 =>
    rw [hx] at h
    cases res with
    | ok a => exact ⟨a, c1, rfl, h⟩
    | err e => simp at h
    | panic p => simp at h
    | ub => simp at h


end Rsdns

namespace Rsdns.C08
open Rsdns Generated Spec C09

/-! ### inversion of the reader's calls -/

theorem data_inv {msg : Bytes} {t : RType} {r1 r2 : Reader} {m : Marker} {v : RData}
    (h : r1.data msg t m = (.ok v, r2)) :
    r1.cur.pos = m.rdataPos ∧ r1.done = false ∧ ∃ c2 t2, readRData t msg m.rdlen r1.cur = (.ok v, c2) ∧
      r1.tr.sectionRead m.section_ c2.pos = .ok t2 ∧ r2 = { r1 with cur := c2, tr := t2 } := by
  unfold Reader.data Reader.assertAt at h
  split at h
  · rename_i hpos
    split at h
    · simp at h
    · rename_i hd
      unfold Reader.onCur at h
      cases hk : readRData t msg m.rdlen r1.cur with
      | mk res c2 =>
        simp only [hk] at h
        obtain ⟨hres, t', hsr, hr2⟩ := finishData_ok_inv m res _ r2 v h
        subst hres
        exact ⟨hpos, by simpa using hd, c2, t', rfl, hsr, hr2⟩
  · simp at h

theorem dataBytes_inv {msg : Bytes} {r1 r2 : Reader} {m : Marker} {b : Bytes}
    (h : r1.dataBytes msg m = (.ok b, r2)) :
    r1.cur.pos = m.rdataPos ∧ r1.done = false ∧ ∃ c2 t2, CurM.slice msg m.rdlen r1.cur = (.ok b, c2) ∧
      r1.tr.sectionRead m.section_ c2.pos = .ok t2 ∧ r2 = { r1 with cur := c2, tr := t2 } := by
  unfold Reader.dataBytes Reader.assertAt at h
  split at h
  · rename_i hpos
    split at h
    · simp at h
    · rename_i hd
      unfold Reader.onCur at h
      cases hk : CurM.slice msg m.rdlen r1.cur with
      | mk res c2 =>
        simp only [hk] at h
        obtain ⟨hres, t', hsr, hr2⟩ := finishData_ok_inv m res _ r2 b h
        subst hres
        exact ⟨hpos, by simpa using hd, c2, t', rfl, hsr, hr2⟩
  · simp at h

theorem optRecord_inv {r1 r2 : Reader} {m : Marker} {o : Opt}
    (h : r1.optRecord m = (.ok o, r2)) :
    r1.cur.pos = m.rdataPos ∧ r1.done = false ∧ m.rtype = TYPE_OPT ∧ ∃ c2 t2, CurM.skip m.rdlen r1.cur = (.ok (), c2) ∧
      r1.tr.sectionRead m.section_ c2.pos = .ok t2 ∧ r2 = { r1 with cur := c2, tr := t2 } := by
  unfold Reader.optRecord Reader.assertAt at h
  split at h
  · simp at h
  · rename_i hd
    split at h
    · rename_i hpos
      split at h
      · simp at h
      · rename_i hty
        unfold Reader.onCur at h
        cases hk : CurM.skip m.rdlen r1.cur with
        | mk res c2 =>
          simp only [hk] at h
          cases res with
          | ok u =>
            simp only at h
            obtain ⟨_, t', hsr, hr2⟩ := finishData_ok_inv m _ _ r2 o h
            exact ⟨hpos, by simpa using hd, by simpa using hty, c2, t', rfl, hsr, hr2⟩
          | err e => simp [Reader.finishData] at h
          | panic p => simp [Reader.finishData] at h
          | ub => simp [Reader.finishData] at h
    · simp at h

/-- where a raw read succeeds, a skip of the same length succeeds and ends at the same place -/
theorem skip_of_slice {msg : Bytes} {n : Nat} {c c2 : Cur} {b : Bytes} (h : CurM.slice msg n c = (.ok b, c2)) :
    CurM.skip n c = (.ok (), c2) := by
  simp only [CurM.slice, CurM.lift] at h
  cases hs : Cur.slice msg c n with
  | ok v =>
    obtain ⟨b', c3⟩ := v
    simp only [hs, Prod.mk.injEq, Res.ok.injEq] at h
    unfold Cur.slice at hs
    split at hs
    · rename_i hfit
      split at hs
      · simp only [Res.ok.injEq, Prod.mk.injEq] at hs
        simp only [Cur.fits, Bool.and_eq_true, decide_eq_true_eq] at hfit
        have : c.len ≥ n := hfit.2
        simp only [CurM.skip, CurM.lift0, Cur.skip, this, if_true, Prod.mk.injEq, true_and]
        rw [← h.2, ← hs.2]
      · simp at hs
    · simp at hs
  | err e => simp [hs] at h
  | panic p => simp [hs] at h
  | ub => simp [hs] at h

/-- where a typed read succeeds, a skip of RDLENGTH succeeds and ends at the same place -/
theorem skip_of_rdata {msg : Bytes} {t : RType} {n : Nat} {c c2 : Cur} {v : RData} (hc : Cur.OK msg c)
    (h : readRData t msg n c = (.ok v, c2)) : CurM.skip n c = (.ok (), c2) := by
  have hs := readRData_spec t msg n c hc
  rw [h] at hs
  obtain ⟨ho, hp, hl, ho2, hfit⟩ := hs
  have : c.len ≥ n := by simp only [Cur.len]; omega
  simp only [CurM.skip, CurM.lift0, Cur.skip, this, if_true, Prod.mk.injEq, true_and]
  obtain ⟨l2, p2, o2⟩ := c2
  simp only at hp hl ho2
  subst hp; subst hl; subst ho2
  simp [ho]

theorem u16_inv' {msg : Bytes} {c c' : Cur} {v : Nat} (h : CurM.u16be msg c = (.ok v, c')) :
    c' = { c with pos := c.pos + 2 } ∧ c.pos + 2 ≤ c.lim := by
  simp only [CurM.u16be, CurM.lift, Cur.u16be] at h
  cases hr : Cur.rBe msg c 2 with
  | ok vr =>
    obtain ⟨a, b⟩ := vr
    simp only [hr, Prod.mk.injEq, Res.ok.injEq] at h
    obtain ⟨_, h2, h3⟩ := rBe_inv msg c 2 a b hr
    exact ⟨by rw [← h.2, h2], h3⟩
  | err e => simp [hr] at h
  | panic p => simp [hr] at h
  | ub => simp [hr] at h

/-- where an owned question is read, `skip_question` succeeds and ends at the same place -/
theorem skipQuestion_of_read {msg : Bytes} {c c' : Cur} {q : Question} (h : readQuestion msg c = (.ok q, c')) :
    skipQuestion msg c = (.ok (), c') := by
  unfold readQuestion at h
  obtain ⟨text, c1, hn, h1⟩ := CurM.bind_ok_inv h
  obtain ⟨v1, c2, hu1, h2⟩ := CurM.bind_ok_inv h1
  obtain ⟨v2, c3, hu2, h3⟩ := CurM.bind_ok_inv h2
  simp only [pure, CurM.pure, Prod.mk.injEq, Res.ok.injEq] at h3
  obtain ⟨_, rfl⟩ := h3
  obtain ⟨e2, b2⟩ := u16_inv' hu1
  obtain ⟨e3, b3⟩ := u16_inv' hu2
  have hrn : readName .inline msg c = .ok (text, c1) := by
    simp only [CurM.readName, CurM.lift] at hn
    cases hr : readName .inline msg c with
    | ok v => obtain ⟨a, b⟩ := v; simp only [hr, Prod.mk.injEq, Res.ok.injEq] at hn; rw [hn.1, hn.2]
    | err e => simp [hr] at hn
    | panic p => simp [hr] at hn
    | ub => simp [hr] at hn
  obtain ⟨nn, hsk⟩ := skip_of_read .inline msg c c1 text hrn
  subst e2
  simp only at e3 b3
  have hlen : c1.len ≥ 4 := by simp only [Cur.len]; omega
  unfold skipQuestion
  simp only [bind, CurM.bind, CurM.skipName, CurM.lift, hsk, CurM.skip, CurM.lift0, Cur.skip, hlen, if_true, e3,
    Nat.add_assoc]


/-- where a borrowed question is read, `skip_question` succeeds and ends at the same place -/
theorem skipQuestion_of_readRef {msg : Bytes} {c c' : Cur} {q : QuestionRef} (h : readQuestionRef msg c = (.ok q, c')) :
    skipQuestion msg c = (.ok (), c') := by
  unfold readQuestionRef at h
  obtain ⟨nn, c1, hn, h1⟩ := CurM.bind_ok_inv h
  obtain ⟨v1, c2, hu1, h2⟩ := CurM.bind_ok_inv h1
  obtain ⟨v2, c3, hu2, h3⟩ := CurM.bind_ok_inv h2
  simp only [pure, CurM.pure, Prod.mk.injEq, Res.ok.injEq] at h3
  obtain ⟨_, rfl⟩ := h3
  obtain ⟨e2, b2⟩ := u16_inv' hu1
  obtain ⟨e3, b3⟩ := u16_inv' hu2
  subst e2
  simp only at e3 b3
  have hlen : c1.len ≥ 4 := by simp only [Cur.len]; omega
  unfold skipQuestion
  simp only [bind, CurM.bind, hn, CurM.skip, CurM.lift0, Cur.skip, hlen, if_true, e3, Nat.add_assoc]

/-- the four fixed-size reads of `raw_marker_impl`, spelled out -/
theorem rawMarker_reads {msg : Bytes} {r r' : Reader} {pos s : Nat} {m : Marker}
    (h : r.rawMarker msg pos s = (.ok m, r')) :
    ∃ c2 c3 c4, CurM.u16be msg r.cur = (.ok m.rtype, c2) ∧ CurM.u16be msg c2 = (.ok m.rclass, c3) ∧
      CurM.u32be msg c3 = (.ok m.ttl, c4) ∧ CurM.u16be msg c4 = (.ok m.rdlen, r'.cur) ∧
      m.section_ = s ∧ m.offset = pos ∧ r' = { r with cur := r'.cur } := by
  unfold Reader.rawMarker Reader.onCur at h
  generalize hx : (do
      let rtype ← CurM.u16be msg
      let rclass ← CurM.u16be msg
      let ttl ← CurM.u32be msg
      let rdlen ← CurM.u16be msg
      pure { offset := pos, typeOffset := r.cur.pos, rtype, rclass, ttl, rdlen, section_ := s : Marker } : CurM Marker) r.cur = x at h
  obtain ⟨res, c⟩ := x
  simp only [Prod.mk.injEq] at h
  obtain ⟨hres, hr'⟩ := h
  rw [hx] at hres hr'
  simp only at hres hr'
  subst hres
  obtain ⟨v1, c2, h1, hx1⟩ := CurM.bind_ok_inv hx
  obtain ⟨v2, c3, h2, hx2⟩ := CurM.bind_ok_inv hx1
  obtain ⟨v3, c4, h3, hx3⟩ := CurM.bind_ok_inv hx2
  obtain ⟨v4, c5, h4, hx4⟩ := CurM.bind_ok_inv hx3
  simp only [pure, CurM.pure, Prod.mk.injEq, Res.ok.injEq] at hx4
  obtain ⟨hm, hc⟩ := hx4
  subst hm; subst hc
  rw [← hr']
  exact ⟨c2, c3, c4, h1, h2, h3, h4, rfl, rfl, rfl⟩

/-- `skip_record_data(marker)` succeeded -/
theorem skipData_inv {r1 r2 : Reader} {m : Marker} (h : r1.skipData m = (.ok (), r2)) :
    r1.cur.pos = m.rdataPos ∧ r1.done = false ∧ ∃ c2 t2, CurM.skip m.rdlen r1.cur = (.ok (), c2) ∧
      r1.tr.sectionRead m.section_ c2.pos = .ok t2 ∧ r2 = { r1 with cur := c2, tr := t2 } := by
  unfold Reader.skipData Reader.assertAt at h
  split at h
  · rename_i hpos
    split at h
    · simp at h
    · rename_i hd
      unfold Reader.skipDataImpl Reader.onCur at h
      cases hk : CurM.skip m.rdlen r1.cur with
      | mk res c2 =>
        simp only [hk] at h
        obtain ⟨hres, t', hsr, hr2⟩ := finishData_ok_inv m res _ r2 () h
        subst hres
        exact ⟨hpos, by simpa using hd, c2, t', rfl, hsr, hr2⟩
  · simp at h

end Rsdns.C08
