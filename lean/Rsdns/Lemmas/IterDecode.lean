/-
  Rsdns.Lemmas.IterDecode — the `MessageIterator` / `Records` API over a specified message: one record
  (`iterRecord_step`), one `next()` (`readImpl_decode`), the drained iterator, the questions
  (helpers of `Rsdns.Props.C02Message.iter_decode_wellformed`).
-/
import Rsdns.Lemmas.PassDecode

set_option linter.unusedVariables false

namespace Rsdns.C02

open Rsdns Generated Spec C09

/-- the iterator passes a record over in silence: OPT, or a CLASS / TYPE that is not a defined code -/
def RecSpec.skipped (x : RecSpec) : Bool :=
  x.rtype == TYPE_OPT || !(isDefined CLASS_KNOWN x.rclass) || !(isDefined TYPE_KNOWN x.rtype)

/-- the iterator's view of a tracker between records (no `done` flag, no reader) -/
structure AtIdx (msg : Bytes) (L : Lay) (cur : Cur) (tr : Tracker) : Prop where
  cur : cur = Cur.withPos msg (L.rOff (idx tr))
  tinv : TInv L tr

theorem ofCode_defined (v : Nat) (t : RType) (h : RType.ofCode v = some t) : isDefined TYPE_KNOWN v = true := by
  have hv : v = t.code := by
    unfold RType.ofCode at h
    have := List.find?_some h
    simp only [beq_iff_eq] at this
    exact this.symm
  subst hv
  cases t <;> decide +kernel

/-- **one record, iterator API.**  At record `x` (index `idx`) `Records::read_impl` either passes it over
    (skipped kinds) and stands at the next index, or returns it — owner, class, type, TTL, typed data,
    and the section the counters prescribe — and stands at the next index. -/
theorem iterRecord_step (msg : Bytes) (L : Lay) (hL : L.WF) (cur : Cur) (tr : Tracker) (hA : AtIdx msg L cur tr)
    (hi : idx tr < L.n) (x : RecSpec) (hx : x.WF msg) (hoff : x.off = L.rOff (idx tr))
    (hend : x.endp = L.rOff (idx tr + 1)) (hraw : x.body = .raw → isDefined TYPE_KNOWN x.rtype = false)
    (fuel : Nat) :
    ∃ tr', AtIdx msg L (Cur.withPos msg x.endp) tr' ∧ idx tr' = idx tr + 1 ∧
      Records.readImpl msg cur tr (fuel + 1) =
        (if x.skipped then Records.readImpl msg (Cur.withPos msg x.endp) tr' fuel
         else match x.body with
           | .typed _ v => (.ok (some { section_ := secAt L (idx tr), name := nameText x.labels, rclass := x.rclass,
                                        rtype := x.rtype, ttl := x.ttl, rdata := v }),
                            Cur.withPos msg x.endp, tr')
           | _ => (.ub, cur, tr)) := by
  obtain ⟨hname, hfit, hty, hcl, httl, hrd, hbody⟩ := hx
  have hcur := hA.cur
  subst hcur
  -- tracker at the header
  obtain ⟨s, t', hns, hsecof, _, _, hsame, hqd, hk, hT1, _⟩ := header_attribution L hL tr hA.tinv hi
  have hs : s = secAt L (idx tr) := SecOf.eq_secAt hA.tinv hsecof
  have hsecof1 : SecOf L t' s := ⟨hsecof.1, by intro j hj; rw [hsame]; exact hsecof.2.1 j hj, by rw [hsame]; exact hsecof.2.2⟩
  have hidx1 : idx t' = idx tr := idx_congr hsame
  obtain ⟨t2, hsr, hT2, hi2, _, _, _⟩ := sectionRead_spec L hL t' hT1 s hsecof1 hk
  rw [hidx1, ← hend] at hsr
  have hsr' : t'.sectionRead s (x.nxt + 10 + x.rdlen) = .ok t2 := hsr
  -- the fixed part
  have hp0 : L.rOff (idx tr) = x.off := hoff.symm
  rw [hp0] at hns ⊢
  have hname' : LegalName msg ({ lim := msg.size, pos := x.off, orig := none } : Cur).lim
      ({ lim := msg.size, pos := x.off, orig := none } : Cur).pos x.labels x.nxt := hname
  obtain ⟨nn, hsk⟩ := skipName_legal msg { lim := msg.size, pos := x.off, orig := none } x.labels x.nxt hname'
  simp only [Cur.setPos] at hsk
  have h1 := u16be_at msg msg.size x.nxt none (by omega) (Nat.le_refl _)
  have h2 := u16be_at msg msg.size (x.nxt + 2) none (by omega) (Nat.le_refl _)
  have h3 := u32be_at msg msg.size (x.nxt + 4) none (by omega) (Nat.le_refl _)
  have h4 := u16be_at msg msg.size (x.nxt + 8) none (by omega) (Nat.le_refl _)
  have hhdr : (do
      let _ ← CurM.skipName msg
      let rtype ← CurM.u16be msg
      let rclass ← CurM.u16be msg
      let ttl ← CurM.u32be msg
      let rdlen ← CurM.u16be msg
      pure (rtype, rclass, ttl, rdlen) : CurM (Nat × Nat × Nat × Nat)) { lim := msg.size, pos := x.off, orig := none } =
      (.ok (x.rtype, x.rclass, x.ttl, x.rdlen), { lim := msg.size, pos := x.nxt + 10, orig := none }) := by
    simp only [bind, CurM.bind, hsk, h1, h2, h3, h4, pure, CurM.pure, ← hty, ← hcl, ← httl, ← hrd, Nat.add_assoc]
  refine ⟨t2, ⟨by rw [hi2, hidx1, hend], hT2⟩, by rw [hi2, hidx1], ?_⟩
  rw [Records.readImpl]
  simp only [Cur.withPos, hns, hhdr]
  by_cases hskip : x.skipped = true
  · have hcond : (x.rtype == TYPE_OPT || !isDefined CLASS_KNOWN x.rclass || !isDefined TYPE_KNOWN x.rtype) = true := hskip
    have hskp := skip_at msg.size (x.nxt + 10) x.rdlen none (by omega)
    simp only [hcond, if_true, hskp, hsr', hskip, RecSpec.endp]
  · have hskipf : x.skipped = false := by simpa using hskip
    have hcond : (x.rtype == TYPE_OPT || !isDefined CLASS_KNOWN x.rclass || !isDefined TYPE_KNOWN x.rtype) = false := hskipf
    simp only [hcond, Bool.false_eq_true, if_false, hskipf]
    cases hb : x.body with
    | typed t v =>
      rw [hb] at hbody
      obtain ⟨hof, hrda⟩ := hbody
      have hdec := rdata_decode msg t (x.nxt + 10) x.rdlen v msg.size hrda (by omega) (Nat.le_refl _)
      have hcl' : Cur.cloneWithPos { lim := msg.size, pos := x.nxt + 10, orig := none } x.off =
          { lim := msg.size, pos := x.off, orig := none } := by
        simp [Cur.cloneWithPos]
      have hrn := C03.read_complete .inline msg { lim := msg.size, pos := x.off, orig := none } x.labels x.nxt
      obtain ⟨hops, hna, hh, hck, hlen⟩ := hname
      have hrn' := hrn hops hna hh hck hlen
      simp only [hof, hcl', hrn', hdec, hsr', ← hs, RecSpec.endp]
    | opt =>
      rw [hb] at hbody
      exfalso
      simp only [RecSpec.skipped, hbody, beq_self_eq_true, Bool.true_or] at hskipf
      cases hskipf
    | raw =>
      exfalso
      have := hraw hb
      simp only [RecSpec.skipped, this, Bool.not_false, Bool.or_true] at hskipf
      cases hskipf

theorem QsAt_nil_eq {msg : Bytes} {p e : Nat} (h : QsAt msg p [] e) : e = p := by
  generalize hl : ([] : List QSpec) = l at h
  cases h with
  | nil => rfl
  | cons q qs e _ _ => cases hl

theorem QsAt_cons_inv {msg : Bytes} {p e : Nat} {q : QSpec} {qs : List QSpec} (h : QsAt msg p (q :: qs) e) :
    q.off = p ∧ q.WF msg ∧ QsAt msg q.endp qs e := by
  generalize hl : q :: qs = l at h
  cases h with
  | nil => cases hl
  | cons q' qs' e hw hr =>
    simp only [List.cons.injEq] at hl
    obtain ⟨rfl, rfl⟩ := hl
    exact ⟨rfl, hw, hr⟩

/-- the records `xs` are laid out from index `i` on; QTYPE-only codes do not occur as record types -/
inductive ChainAt (msg : Bytes) (L : Lay) : Nat → List RecSpec → Prop
  | nil (i : Nat) : ChainAt msg L i []
  | cons (i : Nat) (x : RecSpec) (xs : List RecSpec) : x.WF msg → x.off = L.rOff i → x.endp = L.rOff (i + 1) →
      (x.body = .raw → isDefined TYPE_KNOWN x.rtype = false) → ChainAt msg L (i + 1) xs → ChainAt msg L i (x :: xs)

/-- the records the iterator must yield for `xs` laid out from index `i` -/
def keptFrom (L : Lay) : Nat → List RecSpec → List Record
  | _, [] => []
  | i, x :: xs =>
    if x.skipped then keptFrom L (i + 1) xs
    else match x.body with
      | .typed _ v => { section_ := secAt L i, name := nameText x.labels, rclass := x.rclass, rtype := x.rtype,
                        ttl := x.ttl, rdata := v } :: keptFrom L (i + 1) xs
      | _ => keptFrom L (i + 1) xs

theorem notSkipped_typed {msg : Bytes} {x : RecSpec} (hx : x.WF msg)
    (hraw : x.body = .raw → isDefined TYPE_KNOWN x.rtype = false) (hs : x.skipped = false) :
    ∃ t v, x.body = .typed t v := by
  cases hb : x.body with
  | typed t v => exact ⟨t, v, rfl⟩
  | opt =>
    have := hx.2.2.2.2.2.2
    rw [hb] at this
    simp only [RecSpec.skipped, this, beq_self_eq_true, Bool.true_or] at hs
    cases hs
  | raw =>
    have := hraw hb
    simp only [RecSpec.skipped, this, Bool.not_false, Bool.or_true] at hs
    cases hs

/-- **one `next()` of the iterator**: it passes over the skipped kinds and returns the first record it
    supports — or `None` when only skipped kinds (or nothing) are left -/
theorem readImpl_decode (msg : Bytes) (L : Lay) (hL : L.WF) :
    ∀ (xs : List RecSpec) (cur : Cur) (tr : Tracker) (fuel : Nat), AtIdx msg L cur tr →
      idx tr + xs.length = L.n → xs.length < fuel → ChainAt msg L (idx tr) xs →
      (∃ cur' tr', Records.readImpl msg cur tr fuel = (.ok none, cur', tr') ∧ keptFrom L (idx tr) xs = []) ∨
      (∃ r rest cur' tr', Records.readImpl msg cur tr fuel = (.ok (some r), cur', tr') ∧ AtIdx msg L cur' tr' ∧
        idx tr' + rest.length = L.n ∧ rest.length < xs.length ∧ ChainAt msg L (idx tr') rest ∧
        keptFrom L (idx tr) xs = r :: keptFrom L (idx tr') rest) := by
  intro xs
  induction xs with
  | nil =>
    intro cur tr fuel hA hn hf _
    left
    simp only [List.length_nil, Nat.add_zero] at hn
    cases fuel with
    | zero => omega
    | succ f =>
      refine ⟨cur, tr, ?_, rfl⟩
      rw [Records.readImpl, nextSection_none L tr hA.tinv _ hn]
  | cons x xs ih =>
    intro cur tr fuel hA hn hf hc
    simp only [List.length_cons] at hn hf
    cases hc with
    | cons _ _ _ hw ho he hraw hrest =>
      cases fuel with
      | zero => omega
      | succ f =>
        obtain ⟨tr1, hA1, hi1, hstep⟩ := iterRecord_step msg L hL cur tr hA (by omega) x hw ho he hraw f
        by_cases hs : x.skipped = true
        · simp only [hs, if_true] at hstep
          rw [hstep]
          rw [← hi1] at hrest
          rcases ih _ tr1 f hA1 (by omega) (by omega) hrest with ⟨c', t', h1, h2⟩ | ⟨r, rest, c', t', h1, h2, h3, h4, h5, h6⟩
          · left
            refine ⟨c', t', h1, ?_⟩
            simp only [keptFrom, hs, if_true]
            rw [← hi1]; exact h2
          · right
            refine ⟨r, rest, c', t', h1, h2, h3, by simp only [List.length_cons]; omega, h5, ?_⟩
            simp only [keptFrom, hs, if_true]
            rw [← hi1]; exact h6
        · have hsf : x.skipped = false := by simpa using hs
          obtain ⟨t, v, hb⟩ := notSkipped_typed hw hraw hsf
          simp only [hsf, Bool.false_eq_true, if_false, hb] at hstep
          right
          refine ⟨_, xs, _, tr1, hstep, hA1, by omega, by simp only [List.length_cons]; omega, by rw [hi1]; exact hrest, ?_⟩
          simp only [keptFrom, hsf, Bool.false_eq_true, if_false, hb, hi1]

theorem trackerLeft_eq {L : Lay} {t : Tracker} (h : TInv L t) : trackerLeft t = L.n - idx t := by
  have l0 := h.le0; have l1 := h.le1; have l2 := h.le2
  have t0 := h.t0; have t1 := h.t1; have t2 := h.t2
  simp only [trackerLeft, Lay.n, idx]
  omega

/-- **`records()` drained.** -/
theorem recordsDrain_decode (msg : Bytes) (L : Lay) (hL : L.WF) :
    ∀ (n : Nat) (xs : List RecSpec) (cur : Cur) (tr : Tracker) (acc : List (Except Err Record)) (fuel : Nat),
      xs.length ≤ n → AtIdx msg L cur tr → idx tr + xs.length = L.n → xs.length < fuel → ChainAt msg L (idx tr) xs →
      recordsDrain msg cur tr fuel acc = .ok (acc.reverse ++ (keptFrom L (idx tr) xs).map .ok) := by
  intro n
  induction n with
  | zero =>
    intro xs cur tr acc fuel hle hA hn hf hc
    have hx : xs = [] := List.length_eq_zero_iff.mp (by omega)
    subst hx
    cases fuel with
    | zero => simp at hf
    | succ f =>
      rw [recordsDrain]
      rcases readImpl_decode msg L hL [] cur tr (trackerLeft tr + 1) hA hn (by simp) hc with
        ⟨c', t', h1, h2⟩ | ⟨r, rest, c', t', _, _, _, h4, _, _⟩
      · simp [h1, keptFrom]
      · simp at h4
  | succ n ih =>
    intro xs cur tr acc fuel hle hA hn hf hc
    cases fuel with
    | zero => omega
    | succ f =>
      rw [recordsDrain]
      have hleft : trackerLeft tr = xs.length := by rw [trackerLeft_eq hA.tinv]; omega
      rcases readImpl_decode msg L hL xs cur tr (trackerLeft tr + 1) hA hn (by omega) hc with
        ⟨c', t', h1, h2⟩ | ⟨r, rest, c', t', h1, hA', hn', hlt, hc', hk⟩
      · simp [h1, h2]
      · simp only [h1]
        rw [ih rest c' t' (.ok r :: acc) f (by omega) hA' hn' (by omega) hc', hk]
        simp

theorem chainAt_of_get (msg : Bytes) (L : Lay) : ∀ (xs : List RecSpec) (i : Nat),
    (∀ j, j < xs.length → ∃ x, xs[j]? = some x ∧ x.WF msg ∧ x.off = L.rOff (i + j) ∧ x.endp = L.rOff (i + j + 1) ∧
      (x.body = .raw → isDefined TYPE_KNOWN x.rtype = false)) → ChainAt msg L i xs := by
  intro xs
  induction xs with
  | nil => intro i _; exact ChainAt.nil i
  | cons x xs ih =>
    intro i h
    obtain ⟨x0, hx0, hw, ho, he, hr⟩ := h 0 (by simp)
    simp only [List.getElem?_cons_zero, Option.some.injEq] at hx0
    subst hx0
    refine ChainAt.cons i x xs hw (by simpa using ho) (by simpa using he) hr (ih (i + 1) ?_)
    intro j hj
    obtain ⟨y, hy, hyw, hyo, hye, hyr⟩ := h (j + 1) (by simp; omega)
    refine ⟨y, by simpa using hy, hyw, ?_, ?_, hyr⟩
    · rw [hyo]; congr 1; omega
    · rw [hye]; congr 1; omega

/-- the records `MessageIterator::records()` must yield, with sections from the header counts -/
def keptRecords (h : Header) : Nat → List RecSpec → List Record
  | _, [] => []
  | i, x :: xs =>
    if x.skipped then keptRecords h (i + 1) xs
    else match x.body with
      | .typed _ v => { section_ := sectionOf h i, name := nameText x.labels, rclass := x.rclass, rtype := x.rtype,
                        ttl := x.ttl, rdata := v } :: keptRecords h (i + 1) xs
      | _ => keptRecords h (i + 1) xs

theorem keptFrom_eq (h : Header) (qs : List QSpec) (rs0 : List RecSpec) (e : Nat) :
    ∀ (xs : List RecSpec) (i : Nat), keptFrom (layOf h qs rs0 e) i xs = keptRecords h i xs := by
  intro xs
  induction xs with
  | nil => intro i; rfl
  | cons x xs ih =>
    intro i
    simp only [keptFrom, keptRecords, ih]
    rfl

/-- skipping the questions of a well-formed message ends where the questions end -/
theorem skipN_questions (msg : Bytes) : ∀ (qs : List QSpec) (p e : Nat), QsAt msg p qs e →
    skipN (skipQuestion msg) qs.length { lim := msg.size, pos := p, orig := none } =
      (.ok (), { lim := msg.size, pos := e, orig := none }) := by
  intro qs
  induction qs with
  | nil => intro p e h; rw [QsAt_nil_eq h]; rfl
  | cons q qs ih =>
    intro p e h
    cases h with
    | cons _ _ _ hw hrest =>
      obtain ⟨hname, hfit, _, _⟩ := hw
      obtain ⟨n, hs⟩ := skipName_legal msg { lim := msg.size, pos := q.off, orig := none } q.labels q.nxt hname
      have hk := skip_at msg.size q.nxt 4 none (by omega)
      have h1 : skipQuestion msg { lim := msg.size, pos := q.off, orig := none } =
          (.ok (), { lim := msg.size, pos := q.endp, orig := none }) := by
        simp only [skipQuestion, bind, CurM.bind, hs, Cur.setPos, hk, QSpec.endp]
      simp only [List.length_cons, skipN, bind, CurM.bind, h1]
      exact ih q.endp e hrest

theorem questionsDrain_decode (msg : Bytes) : ∀ (qs : List QSpec) (p e : Nat) (acc : List (Except Err Question)),
    QsAt msg p qs e →
    questionsDrain msg { lim := msg.size, pos := p, orig := none } qs.length acc =
      .ok (acc.reverse ++ qs.map (fun q => .ok q.question)) := by
  intro qs
  induction qs with
  | nil => intro p e acc _; simp [questionsDrain]
  | cons q qs ih =>
    intro p e acc h
    cases h with
    | cons _ _ _ hw hrest =>
      obtain ⟨hname, hfit, hty, hcl⟩ := hw
      have hd := (question_decode msg { lim := msg.size, pos := q.off, orig := none } (Nat.le_refl _) q.labels q.nxt hname
        hfit).1
      simp only [List.length_cons, questionsDrain, hd, Cur.setPos, ← hty, ← hcl]
      rw [show q.nxt + 4 = q.endp from rfl, ih q.endp e _ hrest]
      simp [QSpec.question]


end Rsdns.C02
