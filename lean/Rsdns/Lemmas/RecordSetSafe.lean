/-
  Rsdns.Lemmas.RecordSetSafe — `RecordSet::<D>::from_msg` returns a value or an error on EVERY byte
  string: the straight-line prefix follows the reader protocol (so the `ROut` lemmas of ReaderSafe
  apply), every collected header reference is a cursor inside the message, and the flattening loop
  only compares such references and decodes at markers.
-/
import Rsdns.Lemmas.ReaderSafe
import Rsdns.Model.RecordSet
set_option linter.unusedVariables false
namespace Rsdns
open Generated Spec

/-! ### `RecordSet::from_msg` -/

theorem recordsCountIn_ok {msg : Bytes} {r : Reader} (hb : Base msg r) (s : Nat) : ∃ n, r.recordsCountIn s = .ok n := by
  unfold Reader.recordsCountIn
  split
  · exact ⟨_, hb.2.left_s s⟩
  · exact ⟨_, rfl⟩

theorem recordsCount_ok {msg : Bytes} {r : Reader} (hb : Base msg r) : ∃ n, r.recordsCount = .ok n := by
  unfold Reader.recordsCount
  split
  · exact hb.2.left_all
  · exact ⟨_, rfl⟩

theorem readAnswerHeaders_rout {msg : Bytes} (fuel : Nat) {r : Reader} (acc : List HdrRef) (hb : Base msg r)
    (hacc : ∀ x ∈ acc, Cur.OK msg x.1) :
    ROut (readAnswerHeaders msg r fuel acc) (fun hs r' => Base msg r' ∧ ∀ x ∈ hs, Cur.OK msg x.1) (fun _ _ => True) := by
  induction fuel generalizing r acc with
  | zero => exact ⟨hb, fun x hx => hacc x (by simpa using hx)⟩
  | succ fuel ih =>
    unfold readAnswerHeaders
    obtain ⟨n, hn⟩ := recordsCountIn_ok hb 0
    rw [hn]
    simp only
    split
    · have h1 := recordHeader_rout hb .ref
      cases hh : r.recordHeader msg .ref with
      | mk res r1 =>
        rw [hh] at h1
        cases res with
        | ok x =>
          obtain ⟨hn', m⟩ := x
          obtain ⟨hb1, _, hm1, hk1⟩ := h1
          cases hn' with
          | ref nc =>
            simp only
            have h2 := skipData_rout hb1 m hm1
            cases hsd : r1.skipData m with
            | mk res2 r2 =>
              rw [hsd] at h2
              cases res2 with
              | ok u =>
                exact ih ((nc, m) :: acc) h2 (by
                  intro x hx
                  rcases List.mem_cons.mp hx with rfl | hx
                  · exact hk1
                  · exact hacc x hx)
              | err e => trivial
              | panic p => exact h2.elim
              | ub => exact h2.elim
          | none => exact hk1.elim
          | owned t => exact hk1.elim
        | err e => trivial
        | panic p => exact h1.elim
        | ub => exact h1.elim
    · exact ⟨hb, fun x hx => hacc x (by simpa using hx)⟩

theorem readOpt_rout {msg : Bytes} (fuel : Nat) {r : Reader} (hb : Base msg r) :
    ROut (readOpt msg r fuel) (fun _ r' => Base msg r') (fun _ _ => True) := by
  induction fuel generalizing r with
  | zero => exact hb
  | succ fuel ih =>
    unfold readOpt
    obtain ⟨n, hn⟩ := recordsCount_ok hb
    rw [hn]
    simp only
    split
    · have h1 := recordHeader_rout hb .marker
      cases hh : r.recordHeader msg .marker with
      | mk res r1 =>
        rw [hh] at h1
        cases res with
        | ok x =>
          obtain ⟨hn', m⟩ := x
          obtain ⟨hb1, _, hm1, _⟩ := h1
          simp only
          split
          · rename_i hopt
            have h2 := optRecord_rout hb1 m hm1 hopt
            cases ho : r1.optRecord m with
            | mk res2 r2 =>
              rw [ho] at h2
              cases res2 with
              | ok o => exact h2
              | err e => trivial
              | panic p => exact h2.elim
              | ub => exact h2.elim
          · have h2 := skipData_rout hb1 m hm1
            cases hsd : r1.skipData m with
            | mk res2 r2 =>
              rw [hsd] at h2
              cases res2 with
              | ok u => exact ih h2
              | err e => trivial
              | panic p => exact h2.elim
              | ub => exact h2.elim
        | err e => trivial
        | panic p => exact h1.elim
        | ub => exact h1.elim
    · exact hb

/-- every remaining header's owner reference is a cursor inside the message -/
def AllOK (msg : Bytes) (hs : List (Option HdrRef)) : Prop := ∀ x, some x ∈ hs → Cur.OK msg x.1

theorem AllOK.cons_some {msg : Bytes} {x : HdrRef} {hs : List (Option HdrRef)} (hx : Cur.OK msg x.1) (h : AllOK msg hs) :
    AllOK msg (some x :: hs) := by
  intro y hy
  rcases List.mem_cons.mp hy with he | hy
  · simp only [Option.some.injEq] at he; subst he; exact hx
  · exact h y hy

theorem AllOK.cons_none {msg : Bytes} {hs : List (Option HdrRef)} (h : AllOK msg hs) : AllOK msg (none :: hs) := by
  intro y hy
  rcases List.mem_cons.mp hy with he | hy
  · cases he
  · exact h y hy

theorem AllOK.tail {msg : Bytes} {o : Option HdrRef} {hs : List (Option HdrRef)} (h : AllOK msg (o :: hs)) : AllOK msg hs :=
  fun y hy => h y (List.mem_cons_of_mem _ hy)

theorem AllOK.reverse {msg : Bytes} {hs : List (Option HdrRef)} (h : AllOK msg hs) : AllOK msg hs.reverse :=
  fun y hy => h y (by simpa using hy)

theorem AllOK.append {msg : Bytes} {a b : List (Option HdrRef)} (ha : AllOK msg a) (hb : AllOK msg b) : AllOK msg (a ++ b) := by
  intro y hy
  rcases List.mem_append.mp hy with h | h
  · exact ha y h
  · exact hb y h

theorem nameRefEqQ_safe (msg : Bytes) (a b : Cur) (ha : Cur.OK msg a) (hb : Cur.OK msg b) : (nameRefEqQ msg a b).safe := by
  have := nameRefEqLoop_safe msg msg _ _ (Labels.Inv.new ha) (Labels.Inv.new hb)
  unfold nameRefEqQ
  change (nameRefEq msg msg a b).safe at this
  cases h : nameRefEq msg msg a b with
  | ok v => cases v <;> trivial
  | err e => trivial
  | panic p => rw [h] at this; exact this.elim
  | ub => rw [h] at this; exact this.elim

theorem extractRRSet_safe (msg : Bytes) (t : RType) (r : Reader) (hr : RInv msg r) (name : Cur) (hname : Cur.OK msg name)
    (rclass : Nat) (hs : List (Option HdrRef)) (ttl : Nat) (rd : List RData) (out : List (Option HdrRef))
    (h1 : AllOK msg hs) (h2 : AllOK msg out) :
    match extractRRSet msg t r name rclass hs ttl rd out with
    | .ok (_, _, out') => AllOK msg out'
    | .err _ => True
    | .panic _ => False
    | .ub => False := by
  induction hs generalizing ttl rd out with
  | nil => simp only [extractRRSet]; exact h2.reverse
  | cons o rest ih =>
    cases o with
    | none =>
      simp only [extractRRSet]
      exact ih ttl rd (none :: out) h1.tail h2.cons_none
    | some x =>
      obtain ⟨hn, m⟩ := x
      have hx : Cur.OK msg hn := h1 (hn, m) (List.mem_cons_self ..)
      simp only [extractRRSet]
      have hq := nameRefEqQ_safe msg hn name hx hname
      cases he : nameRefEqQ msg hn name with
      | ok eq =>
        simp only
        by_cases hc : (eq && m.rtype == t.code && m.rclass == rclass) = true
        · rw [if_pos hc]
          have hd := dataAt_safe hr t m
          cases hda : r.dataAt msg t m with
          | ok d => simp only; exact ih _ _ _ h1.tail h2.cons_none
          | err e => trivial
          | panic p => rw [hda] at hd; exact hd.elim
          | ub => rw [hda] at hd; exact hd.elim
        · rw [if_neg hc]
          exact ih _ _ _ h1.tail (AllOK.cons_some (x := (hn, m)) hx h2)
      | err e => trivial
      | panic p => rw [he] at hq; exact hq.elim
      | ub => rw [he] at hq; exact hq.elim

theorem extractCname_safe (msg : Bytes) (r : Reader) (hr : RInv msg r) (name : Cur) (hname : Cur.OK msg name)
    (rclass : Nat) (hs : List (Option HdrRef)) (out : List (Option HdrRef)) (h1 : AllOK msg hs) (h2 : AllOK msg out) :
    match extractCname msg r name rclass hs out with
    | .ok none => True
    | .ok (some (n, hs')) => Cur.OK msg n ∧ AllOK msg hs'
    | .err _ => True
    | .panic _ => False
    | .ub => False := by
  induction hs generalizing out with
  | nil => simp only [extractCname]
  | cons o rest ih =>
    cases o with
    | none =>
      simp only [extractCname]
      exact ih (none :: out) h1.tail h2.cons_none
    | some x =>
      obtain ⟨hn, m⟩ := x
      have hx : Cur.OK msg hn := h1 (hn, m) (List.mem_cons_self ..)
      simp only [extractCname]
      have hq := nameRefEqQ_safe msg hn name hx hname
      cases he : nameRefEqQ msg hn name with
      | ok eq =>
        simp only
        by_cases hc : (eq && m.rtype == TYPE_CNAME && m.rclass == rclass) = true
        · rw [if_pos hc]
          exact ⟨hr.1.cloneWithPos _, h2.reverse.append h1.tail.cons_none⟩
        · rw [if_neg hc]
          exact ih _ h1.tail (AllOK.cons_some (x := (hn, m)) hx h2)
      | err e => trivial
      | panic p => rw [he] at hq; exact hq.elim
      | ub => rw [he] at hq; exact hq.elim

theorem flattenLoop_safe (msg : Bytes) (t : RType) (r : Reader) (hr : RInv msg r) (rclass : Nat) (fuel : Nat) (name : Cur)
    (hname : Cur.OK msg name) (hs : List (Option HdrRef)) (rounds : Nat) (h1 : AllOK msg hs) :
    match flattenLoop msg t r rclass fuel name hs rounds with
    | .ok (n, _, _, _) => Cur.OK msg n
    | .err _ => True
    | .panic _ => False
    | .ub => False := by
  induction fuel generalizing name hs rounds with
  | zero => simp only [flattenLoop]
  | succ fuel ih =>
    simp only [flattenLoop]
    have hx := extractRRSet_safe msg t r hr name hname rclass hs 4294967295 [] [] h1 (fun y hy => by simp at hy)
    cases he : extractRRSet msg t r name rclass hs 4294967295 [] [] with
    | ok v =>
      obtain ⟨ttl, rdata, hs'⟩ := v
      rw [he] at hx
      simp only
      by_cases hne : (!rdata.isEmpty) = true
      · rw [if_pos hne]
        exact hname
      · rw [if_neg hne]
        have hc := extractCname_safe msg r hr name hname rclass hs' [] hx (fun y hy => by simp at hy)
        cases hec : extractCname msg r name rclass hs' [] with
        | ok o =>
          rw [hec] at hc
          cases o with
          | none => trivial
          | some v2 =>
            obtain ⟨n, hs''⟩ := v2
            simp only
            exact ih n hc.1 hs'' _ hc.2
        | err e => trivial
        | panic p => rw [hec] at hc; exact hc.elim
        | ub => rw [hec] at hc; exact hc.elim
    | err e => trivial
    | panic p => rw [he] at hx; exact hx.elim
    | ub => rw [he] at hx; exact hx.elim

theorem readQuestionRef_qname {msg : Bytes} {c c' : Cur} {q : QuestionRef} (h : readQuestionRef msg c = (.ok q, c')) :
    q.qname = c := by
  unfold readQuestionRef at h
  obtain ⟨_, c1, _, h1⟩ := CurM.bind_ok_inv h
  obtain ⟨_, c2, _, h2⟩ := CurM.bind_ok_inv h1
  obtain ⟨_, c3, _, h3⟩ := CurM.bind_ok_inv h2
  simp only [pure, CurM.pure, Prod.mk.injEq, Res.ok.injEq] at h3
  rw [← h3.1]

/-- `the_question_ref` returns a reference whose name cursor is the reader's cursor before the call -/
theorem question_ref_form {msg : Bytes} {r r' : Reader} {qo : QOut} (h : r.question msg .theQuestionRef = (.ok qo, r')) :
    ∃ q, qo = .ref q ∧ q.qname = r.cur := by
  unfold Reader.question at h
  split at h
  · simp at h
  · split at h
    · simp at h
    · simp at h
    · simp at h
    · rename_i left hl
      simp only at h
      split at h
      · simp at h
      · split at h
        · simp at h
        · have hk : (QKind.theQuestionRef == QKind.question || QKind.theQuestionRef == QKind.theQuestion) = false := by decide
          rw [hk] at h
          unfold Reader.afterQ at h
          cases hq : r.readQ msg false with
          | mk res r1 =>
            rw [hq] at h
            cases res with
            | ok q0 =>
              simp only at h
              have hq0 : qo = q0 := by
                cases hqr : r1.tr.questionRead r1.cur.pos <;> rw [hqr] at h <;> simp at h
                exact h.1.symm
              subst hq0
              unfold Reader.readQ Reader.onCur at hq
              simp only [Bool.false_eq_true, if_false] at hq
              cases hrq : readQuestionRef msg r.cur with
              | mk res2 c2 =>
                rw [hrq] at hq
                cases res2 with
                | ok q' =>
                  simp only [Prod.mk.injEq, Res.ok.injEq] at hq
                  exact ⟨q', hq.1.symm, readQuestionRef_qname hrq⟩
                | err e => simp at hq
                | panic p => simp at hq
                | ub => simp at hq
            | err e => simp at h
            | panic p => simp at h
            | ub => simp at h

/-- the straight-line prefix of `from_msg`: a value or an error on every byte string; what it returns
    is ready for the flattening loop -/
theorem fromMsgPrefix_safe (msg : Bytes) :
    match fromMsgPrefix msg with
    | .ok p => RInv msg p.reader ∧ Cur.OK msg p.question.qname ∧ ∀ x ∈ p.headers, Cur.OK msg x.1
    | .err _ => True
    | .panic _ => False
    | .ub => False := by
  unfold fromMsgPrefix
  cases hnew : Reader.new msg with
  | err e => trivial
  | panic p => unfold Reader.new at hnew; split at hnew <;> simp at hnew
  | ub => unfold Reader.new at hnew; split at hnew <;> simp at hnew
  | ok mr =>
    simp only
    have ht : mr.tr = Tracker.default := by
      unfold Reader.new at hnew
      split at hnew
      · simp at hnew
      · simp only [Res.ok.injEq] at hnew; rw [← hnew]
    have hh := header_rout (RInv.new hnew) ht
    cases hhd : mr.header msg with
    | mk res mr1 =>
      rw [hhd] at hh
      cases res with
      | err e => trivial
      | panic p => exact hh.elim
      | ub => exact hh.elim
      | ok header =>
        simp only
        by_cases hqr : (!(flags_qr header.flags)) = true
        · rw [if_pos hqr]; trivial
        · rw [if_neg hqr]
          by_cases htc : flags_tc header.flags = true
          · rw [if_pos htc]; trivial
          · rw [if_neg htc]
            have hq := question_rout (msg := msg) hh .theQuestionRef
            cases hqq : mr1.question msg .theQuestionRef with
            | mk res2 mr2 =>
              rw [hqq] at hq
              cases res2 with
              | err e => trivial
              | panic p => exact hq.elim
              | ub => exact hq.elim
              | ok qo =>
                obtain ⟨q, hform, hqn⟩ := question_ref_form hqq
                subst hform
                simp only
                have ha := readAnswerHeaders_rout (msg := msg) (mr2.sFuel 0) [] hq (fun x hx => by simp at hx)
                cases hah : readAnswerHeaders msg mr2 (mr2.sFuel 0) [] with
                | mk res3 mr3 =>
                  rw [hah] at ha
                  cases res3 with
                  | err e => trivial
                  | panic p => exact ha.elim
                  | ub => exact ha.elim
                  | ok headers =>
                    simp only
                    have ho := readOpt_rout (msg := msg) (mr3.sFuel 0) ha.1
                    cases hop : readOpt msg mr3 (mr3.sFuel 0) with
                    | mk res4 mr4 =>
                      rw [hop] at ho
                      cases res4 with
                      | err e => trivial
                      | panic p => exact ho.elim
                      | ub => exact ho.elim
                      | ok opt => exact ⟨ho.1, by rw [hqn]; exact hh.1.1, ha.2⟩

theorem fromMsgR_safe (t : RType) (msg : Bytes) : (fromMsgR t msg).safe := by
  unfold fromMsgR
  have hp := fromMsgPrefix_safe msg
  cases hpre : fromMsgPrefix msg with
  | err e => trivial
  | panic p => rw [hpre] at hp; exact hp.elim
  | ub => rw [hpre] at hp; exact hp.elim
  | ok p =>
    rw [hpre] at hp
    simp only
    by_cases hrc : p.rcode ≠ 0
    · rw [if_pos hrc]; trivial
    · rw [if_neg hrc]
      have hall : AllOK msg (p.headers.map some) := by
        intro x hx
        simp only [List.mem_map, Option.some.injEq] at hx
        obtain ⟨y, hy, rfl⟩ := hx
        exact hp.2.2 y hy
      have hf := flattenLoop_safe msg t p.reader hp.1 p.question.qclass (p.headers.length + 1) p.question.qname hp.2.1
        (p.headers.map some) 0 hall
      cases hfl : flattenLoop msg t p.reader p.question.qclass (p.headers.length + 1) p.question.qname
          (p.headers.map some) 0 with
      | err e => trivial
      | panic pk => rw [hfl] at hf; exact hf.elim
      | ub => rw [hfl] at hf; exact hf.elim
      | ok v =>
        obtain ⟨name, ttl, rdata, rounds⟩ := v
        rw [hfl] at hf
        simp only
        have hn := readName_safe .heap msg name hf
        unfold nameRefToName
        cases hrn : readName .heap msg name with
        | ok v2 => trivial
        | err e => trivial
        | panic pk => rw [hrn] at hn; exact hn.elim
        | ub => rw [hrn] at hn; exact hn.elim

theorem fromMsg_safe (t : RType) (msg : Bytes) : (fromMsg t msg).safe := by
  have := fromMsgR_safe t msg
  unfold fromMsg
  cases h : fromMsgR t msg with
  | ok v => trivial
  | err e => trivial
  | panic p => rw [h] at this; exact this.elim
  | ub => rw [h] at this; exact this.elim

end Rsdns
