/-
  Rsdns.Lemmas.NameRef — helper lemmas behind `NameRef::eq` (C08): uniqueness of the RFC expansion at a
  position, what a `Labels` step returns, the `Yields` relation ("iterating yields exactly these
  labels"), its link to the read loop, and the list lemma that splitting a dotted text at dots is unique.
-/
import Rsdns.Props.C03
import Rsdns.Lemmas.Safety
import Rsdns.Lemmas.Bits
import Rsdns.Model.NameText

set_option linter.unusedVariables false

namespace Rsdns.C08

open Rsdns Generated Spec


/-- the expansion of the name at a position is unique -/
theorem Expand.functional {msg : Bytes} {p : Nat} {l l' : List Bytes} {n n' : Nat}
    (h : Expand msg p l n) (h' : Expand msg p l' n') : l = l' ∧ n = n' := by
  induction h generalizing l' n' with
  | zero pos hz =>
    cases h' with
    | zero _ _ => exact ⟨rfl, rfl⟩
    | label _ b _ _ _ hb hp _ _ _ _ => rw [hz] at hb; simp only [Option.some.injEq] at hb; subst hb; simp at hp
    | ptr _ b1 _ _ _ hb hge _ _ => rw [hz] at hb; simp only [Option.some.injEq] at hb; subst hb; simp at hge
  | label pos b x xs nxt hb hp hlt hsz hx _ ih =>
    cases h' with
    | zero _ hz => rw [hb] at hz; simp only [Option.some.injEq] at hz; subst hz; simp at hp
    | label _ b' y ys _ hb' _ _ _ hy hrest =>
      rw [hb] at hb'
      simp only [Option.some.injEq] at hb'
      subst hb'
      obtain ⟨e1, e2⟩ := ih hrest
      exact ⟨by rw [hx, hy, e1], e2⟩
    | ptr _ b1 _ _ _ hb' hge _ _ => rw [hb] at hb'; simp only [Option.some.injEq] at hb'; subst hb'; omega
  | ptr pos b1 b2 xs nxt' hb hge hb2 _ ih =>
    cases h' with
    | zero _ hz => rw [hb] at hz; simp only [Option.some.injEq] at hz; subst hz; simp at hge
    | label _ b' _ _ _ hb' _ hlt _ _ _ => rw [hb] at hb'; simp only [Option.some.injEq] at hb'; subst hb'; omega
    | ptr _ c1 c2 _ nxt2 hc1 _ hc2 hrest =>
      rw [hb] at hc1; rw [hb2] at hc2
      simp only [Option.some.injEq] at hc1 hc2
      subst hc1; subst hc2
      exact ⟨(ih hrest).1, rfl⟩

/-- the label a `Labels` step returns is the label that sits at its `pos` in the message, and the
    iterator resumes right behind it -/
theorem nextImpl_label_at {msg : Bytes} {s s' : LSt} {lab : LabelRef} (h : nextImpl msg s = .ok (some lab, s')) :
    ∃ n : UInt8, msg[lab.pos]? = some n ∧ 0 < n.toNat ∧ n.toNat < 64 ∧
      lab.bytes = msg.extract (lab.pos + 1) (lab.pos + 1 + n.toNat) ∧ s'.cur.pos = lab.pos + 1 + n.toNat ∧
      lab.pos + 1 + n.toNat ≤ msg.size := by
  fun_induction nextImpl msg s with
  | case1 => simp at h
  | case2 => simp at h
  | case3 => simp at h
  | case4 => simp at h
  | case5 => simp at h
  | case6 => simp at h
  | case7 => simp at h
  | case8 s bytes pos s1 hst hck =>
    simp only [Res.ok.injEq, Prod.mk.injEq, Option.some.injEq] at h
    obtain ⟨rfl, rfl⟩ := h
    obtain ⟨label, c1, hu, hc⟩ := iterStep_ok_cases hst
    have h1 := Cur.u8_ok hu
    rcases hc with ⟨_, hz⟩ | ⟨hne, hlen, b, c2, hs, hst'⟩ | ⟨_, _, _, _, _, _, _, _, _, hj⟩
    · simp at hz
    · simp only [Step.label.injEq] at hst'
      obtain ⟨rfl, rfl, rfl⟩ := hst'
      have h2 := Cur.slice_ok hs
      have hlt : label.toNat < 64 := by
        have := is_length_iff label.toNat label.toNat_lt
        rw [hlen] at this
        simpa using this
      have hpos : 0 < label.toNat := UInt8.toNat_pos_of_ne_zero (by simpa using hne)
      refine ⟨label, h1.2.2.2.2.2, hpos, hlt, ?_, ?_, ?_⟩
      · simp only; rw [h2.2.2.2.2.2, h1.2.1]
      · simp only; rw [h2.2.1, h1.2.1]
      · simp only; have := h2.2.2.2.1; have := h2.2.2.2.2.1; rw [h1.2.1, h1.1] at *; omega
    · simp at hj
  | case9 s s1 hst ih => exact ih h

/-- label-wise, ASCII-case-insensitive equality of two label sequences -/
def eqLabels : List Bytes → List Bytes → Bool
  | [], [] => true
  | a :: as, b :: bs => eqIgnoreCase a b && eqLabels as bs
  | _, _ => false

theorem eqIgnoreCase_refl (a : Bytes) : eqIgnoreCase a a = true := by simp [eqIgnoreCase]

theorem eqLabels_refl : ∀ l : List Bytes, eqLabels l l = true
  | [] => rfl
  | a :: as => by simp [eqLabels, eqIgnoreCase_refl, eqLabels_refl as]

/-- unfolding `drain` one step -/
theorem drain_done (msg : Bytes) (l : Labels) (acc : List LabelRef) (h : l.done = true) :
    Labels.drain msg l acc = .ok (.ok acc.reverse) := by
  rw [Labels.drain]; simp [h]

theorem drain_some (msg : Bytes) (l : Labels) (acc : List LabelRef) (h : l.done = false) (lab : LabelRef) (s' : LSt)
    (hn : nextImpl msg l.st = .ok (some lab, s')) :
    Labels.drain msg l acc = Labels.drain msg { st := s', done := false } (lab :: acc) := by
  rw [Labels.drain]
  simp only [h, Bool.false_eq_true, dite_false]
  split <;> simp_all

theorem drain_none (msg : Bytes) (l : Labels) (acc : List LabelRef) (h : l.done = false) (s' : LSt)
    (hn : nextImpl msg l.st = .ok (none, s')) :
    Labels.drain msg l acc = .ok (.ok acc.reverse) := by
  rw [Labels.drain]
  simp only [h, Bool.false_eq_true, dite_false]
  split <;> simp_all

theorem drain_err (msg : Bytes) (l : Labels) (acc : List LabelRef) (h : l.done = false) (e : Err)
    (hn : nextImpl msg l.st = .err e) :
    Labels.drain msg l acc = .ok (.error e) := by
  rw [Labels.drain]
  simp only [h, Bool.false_eq_true, dite_false]
  split <;> simp_all

/-- `for l in labels` yields exactly the labels `refs`, without error -/
inductive Yields (msg : Bytes) : Labels → List LabelRef → Prop
  | done (l : Labels) : l.done = true → Yields msg l []
  | none (l : Labels) (s' : LSt) : l.done = false → nextImpl msg l.st = .ok (none, s') → Yields msg l []
  | cons (l : Labels) (lab : LabelRef) (s' : LSt) (rest : List LabelRef) : l.done = false →
      nextImpl msg l.st = .ok (some lab, s') → Yields msg { st := s', done := false } rest →
      Yields msg l (lab :: rest)

theorem yields_of_drain (msg : Bytes) (l : Labels) (acc r : List LabelRef)
    (h : Labels.drain msg l acc = .ok (.ok r)) : ∃ tail, r = acc.reverse ++ tail ∧ Yields msg l tail := by
  fun_induction Labels.drain msg l acc with
  | case1 l acc hd =>
    simp only [Res.ok.injEq, Except.ok.injEq] at h
    exact ⟨[], by simp [h], Yields.done l hd⟩
  | case2 l acc hd lab s' hn ih =>
    obtain ⟨tail, hr, hy⟩ := ih h
    refine ⟨lab :: tail, by simp [hr], Yields.cons l lab s' tail (by simpa using hd) hn hy⟩
  | case3 l acc hd s' hn =>
    simp only [Res.ok.injEq, Except.ok.injEq] at h
    exact ⟨[], by simp [h], Yields.none l s' (by simpa using hd) hn⟩
  | case4 => simp at h
  | case5 => simp at h
  | case6 => simp at h

/-- the labels an iterator yields are the RFC expansion of the name at its position -/
theorem Yields.expand {msg : Bytes} {l : Labels} {refs : List LabelRef} (h : Yields msg l refs)
    (hd : l.done = false) : ∃ nxt, Expand msg l.st.cur.pos (refs.map (·.bytes)) nxt := by
  induction h with
  | done l hdone => rw [hd] at hdone; cases hdone
  | none l s' _ hn => exact (C03.nextImpl_sound msg l.st).2 s' hn
  | cons l lab s' rest _ hn _ ih =>
    obtain ⟨nxt, hex⟩ := ih rfl
    obtain ⟨_, _, hx⟩ := (C03.nextImpl_sound msg l.st).1 lab s' hn
    obtain ⟨nxt', hex'⟩ := hx _ _ hex
    exact ⟨nxt', by simpa using hex'⟩

/-- what `Iterator::next` returns on an iterator that yields `refs` -/
theorem Yields.next {msg : Bytes} {l : Labels} {refs : List LabelRef} (h : Yields msg l refs) :
    (refs = [] ∧ ∃ l', Labels.next msg l = .ok (.none, l')) ∨
    (∃ lab s' rest, refs = lab :: rest ∧ Labels.next msg l = .ok (.label lab, { st := s', done := false }) ∧
      nextImpl msg l.st = .ok (some lab, s') ∧ Yields msg { st := s', done := false } rest) := by
  cases h with
  | done _ hd => left; exact ⟨rfl, l, by simp [Labels.next, hd]⟩
  | none _ s' hd hn => left; exact ⟨rfl, { st := s', done := true }, by simp [Labels.next, hd, hn]⟩
  | cons _ lab s' rest hd hn hy => right; exact ⟨lab, s', rest, rfl, by simp [Labels.next, hd, hn], hn, hy⟩

/-- two iterators over the SAME message that stand behind a label at the same position yield the same
    remaining labels (this is what makes the same-offset shortcut of `NameRef::eq` sound) -/
theorem same_pos_same_rest {msg : Bytes} {sa sb : LSt} {la lb : LabelRef} {sa' sb' : LSt} {ra rb : List LabelRef}
    (ha : nextImpl msg sa = .ok (some la, sa')) (hb : nextImpl msg sb = .ok (some lb, sb'))
    (hya : Yields msg { st := sa', done := false } ra) (hyb : Yields msg { st := sb', done := false } rb)
    (hp : la.pos = lb.pos) : la.bytes = lb.bytes ∧ ra.map (·.bytes) = rb.map (·.bytes) := by
  obtain ⟨n, hn, _, _, hba, hpa, _⟩ := nextImpl_label_at ha
  obtain ⟨m, hm, _, _, hbb, hpb, _⟩ := nextImpl_label_at hb
  rw [hp] at hn hba hpa
  rw [hn] at hm
  simp only [Option.some.injEq] at hm
  subst hm
  obtain ⟨na, hea⟩ := hya.expand rfl
  obtain ⟨nb, heb⟩ := hyb.expand rfl
  simp only at hea heb
  rw [hpa] at hea
  rw [hpb] at heb
  exact ⟨by rw [hba, hbb], (Expand.functional hea heb).1⟩



def lowerL (l : List UInt8) : List UInt8 := l.map lowerByte

theorem lowerByte_dot (b : UInt8) : lowerByte b = 46 ↔ b = 46 := by
  unfold lowerByte
  constructor
  · intro h
    split at h
    · rename_i hc
      have := congrArg UInt8.toNat h
      simp only [UInt8.toNat_add, UInt8.reduceToNat] at this
      omega
    · exact h
  · intro h; subst h; decide

/-- a label without a dot -/
def NoDot (l : Bytes) : Prop := ∀ b ∈ l.toList, b ≠ 46

/-- splitting at the first dot is unique for dot-free prefixes -/
theorem lower_split (x y t u : List UInt8) (hx : ∀ b ∈ x, b ≠ 46) (hy : ∀ b ∈ y, b ≠ 46) :
    lowerL (x ++ 46 :: t) = lowerL (y ++ 46 :: u) ↔ lowerL x = lowerL y ∧ lowerL t = lowerL u := by
  induction x generalizing y with
  | nil =>
    cases y with
    | nil => simp [lowerL, lowerByte]
    | cons d y' =>
      have hd : d ≠ 46 := hy d (by simp)
      have : lowerByte d ≠ 46 := fun h => hd ((lowerByte_dot d).mp h)
      simp only [lowerL, List.nil_append, List.map_cons, List.cons_append, List.cons.injEq, List.map_nil]
      constructor
      · intro h
        have h1 := h.1
        have : lowerByte 46 = 46 := by decide
        rw [this] at h1
        exact absurd h1.symm ‹lowerByte d ≠ 46›
      · intro h; cases h.1
  | cons c x' ih =>
    cases y with
    | nil =>
      have hc : c ≠ 46 := hx c (by simp)
      have : lowerByte c ≠ 46 := fun h => hc ((lowerByte_dot c).mp h)
      simp only [lowerL, List.nil_append, List.map_cons, List.cons_append, List.cons.injEq, List.map_nil]
      constructor
      · intro h
        have h1 := h.1
        have h46 : lowerByte 46 = 46 := by decide
        rw [h46] at h1
        exact absurd h1 this
      · intro h; cases h.1
    | cons d y' =>
      have := ih y' (fun b hb => hx b (by simp [hb])) (fun b hb => hy b (by simp [hb]))
      simp only [lowerL, List.cons_append, List.map_cons, List.cons.injEq] at this ⊢
      constructor
      · intro h; have := this.mp h.2; exact ⟨⟨h.1, this.1⟩, this.2⟩
      · intro h; exact ⟨h.1.1, this.mpr ⟨h.1.2, h.2⟩⟩

theorem textOf_toList (l : Bytes) (ls : List Bytes) :
    (textOf (l :: ls)).toList = l.toList ++ 46 :: (textOf ls).toList := by
  simp [textOf]

theorem eqIgnoreCase_iff (a b : Bytes) : eqIgnoreCase a b = true ↔ lowerL a.toList = lowerL b.toList := by
  unfold eqIgnoreCase lowerL
  constructor
  · intro h
    simp only [Bool.and_eq_true, beq_iff_eq] at h
    exact h.2
  · intro h
    simp only [Bool.and_eq_true, beq_iff_eq]
    refine ⟨?_, h⟩
    have := congrArg List.length h
    simpa using this

theorem eqLabels_textOf (la lb : List Bytes) (ha : ∀ l ∈ la, NoDot l) (hb : ∀ l ∈ lb, NoDot l) :
    eqLabels la lb = true ↔ lowerL (textOf la).toList = lowerL (textOf lb).toList := by
  induction la generalizing lb with
  | nil =>
    cases lb with
    | nil => simp [eqLabels, textOf]
    | cons b bs =>
      simp only [eqLabels, textOf_toList, Bool.false_eq_true, false_iff]
      intro h
      have := congrArg List.length h
      simp [lowerL, textOf] at this
  | cons a as ih =>
    cases lb with
    | nil =>
      simp only [eqLabels, textOf_toList, Bool.false_eq_true, false_iff]
      intro h
      have := congrArg List.length h
      simp [lowerL, textOf] at this
    | cons b bs =>
      have ha0 : ∀ x ∈ a.toList, x ≠ 46 := ha a (by simp)
      have hb0 : ∀ x ∈ b.toList, x ≠ 46 := hb b (by simp)
      rw [textOf_toList, textOf_toList, lower_split _ _ _ _ ha0 hb0]
      simp only [eqLabels, Bool.and_eq_true, eqIgnoreCase_iff]
      rw [ih bs (fun l hl => ha l (by simp [hl])) (fun l hl => hb l (by simp [hl]))]

/-- a label accepted by `check_label_bytes` is non-empty and contains no dot -/
theorem checkLabel_nodot (l : Bytes) (h : checkLabel l = .ok ()) : NoDot l ∧ 0 < l.size := by
  unfold checkLabel at h
  split at h
  · simp at h
  · rename_i hne
    split at h
    · simp at h
    · split at h
      · simp at h
      · rename_i hfind
        refine ⟨?_, Nat.pos_of_ne_zero hne⟩
        intro b hb heq
        have := List.find?_eq_none.mp hfind b hb
        subst heq
        simp [label_char_ok_not_dot] at this


theorem nextImpl_zero {msg : Bytes} {s s' : LSt} (h : iterStep msg s = .ok (.zero s')) :
    nextImpl msg s = .ok (none, s') := by
  rw [nextImpl]; split <;> simp_all

theorem nextImpl_label {msg : Bytes} {s s' : LSt} {b : Bytes} {p : Nat} (h : iterStep msg s = .ok (.label b p s'))
    (hc : checkLabel b = .ok ()) : nextImpl msg s = .ok (some { bytes := b, pos := p }, s') := by
  rw [nextImpl]; split <;> simp_all

theorem nextImpl_jump {msg : Bytes} {s s' : LSt} (h : iterStep msg s = .ok (.jump s')) :
    nextImpl msg s = nextImpl msg s' := by
  rw [nextImpl]; split <;> simp_all

/-- wherever an owned name can be read, the label iterator yields exactly its labels -/
theorem yields_of_walk (msg : Bytes) (k : NameKind) (s : LSt) (acc : Bytes) (ls : List Bytes) (n : Nat)
    (o : WalkOut) (h : walk msg (.read k) s acc ls n = .ok o) :
    ∃ refs, Yields msg { st := s, done := false } refs ∧ o.labels = ls.reverse ++ refs.map (·.bytes) := by
  generalize hm : Mode.read k = m at h
  fun_induction walk msg m s acc ls n with
  | case1 => simp at h
  | case2 => simp at h
  | case3 => simp at h
  | case4 s acc ls n s' hst =>
    simp only [Res.ok.injEq] at h
    subst h
    exact ⟨[], Yields.none _ s' rfl (nextImpl_zero hst), by simp⟩
  | case5 => simp at h
  | case6 => simp at h
  | case7 => simp at h
  | case8 s acc ls n bytes p s' hst acc' hon ih =>
    subst hm
    have hck := (Mode.onLabel_read_ok hon).2.1
    obtain ⟨refs, hy, hl⟩ := ih h
    refine ⟨{ bytes := bytes, pos := p } :: refs, Yields.cons _ _ s' refs rfl (nextImpl_label hst hck) hy, ?_⟩
    rw [hl]; simp
  | case9 s acc ls n s' hst ih =>
    obtain ⟨refs, hy, hl⟩ := ih h
    refine ⟨refs, ?_, hl⟩
    have hj := nextImpl_jump hst
    cases hy with
    | done _ hd => cases hd
    | none _ s2 _ hn => exact Yields.none _ s2 rfl (by simp only; rw [hj]; exact hn)
    | cons _ lab s2 rest _ hn hy' => exact Yields.cons _ lab s2 rest rfl (by simp only; rw [hj]; exact hn) hy'


end Rsdns.C08
