/-
  Rsdns.Lemmas.PassDecode — the linear pass over a specified message, step by step: one record
  (`readRecord_decode`), all records, one question, all questions, and the layout `Lay` of a specified
  message (helpers of `Rsdns.Props.C02Message.decode_wellformed`).
-/
import Rsdns.Props.C02
import Rsdns.Props.C09

set_option linter.unusedVariables false

namespace Rsdns.C02

open Rsdns Generated Spec C09

/-- the marker a pass must report for record `x` in section `s` -/
def RecSpec.marker (x : RecSpec) (s : Nat) : Marker :=
  { offset := x.off, typeOffset := x.nxt, rtype := x.rtype, rclass := x.rclass, ttl := x.ttl, rdlen := x.rdlen,
    section_ := s }

@[simp] theorem RecSpec.marker_rdlen (x : RecSpec) (s : Nat) : (x.marker s).rdlen = x.rdlen := rfl
@[simp] theorem RecSpec.marker_section (x : RecSpec) (s : Nat) : (x.marker s).section_ = s := rfl
@[simp] theorem RecSpec.marker_rtype (x : RecSpec) (s : Nat) : (x.marker s).rtype = x.rtype := rfl
@[simp] theorem RecSpec.marker_rclass (x : RecSpec) (s : Nat) : (x.marker s).rclass = x.rclass := rfl
@[simp] theorem RecSpec.marker_ttl (x : RecSpec) (s : Nat) : (x.marker s).ttl = x.ttl := rfl
@[simp] theorem RecSpec.marker_rdataPos (x : RecSpec) (s : Nat) : (x.marker s).rdataPos = x.nxt + 10 := by
  simp [Marker.rdataPos, RecSpec.marker, TYPE_TO_RDATA_OFFSET]

theorem skip_at (lim pos n : Nat) (orig : Option Nat) (h : pos + n ≤ lim) :
    CurM.skip n { lim := lim, pos := pos, orig := orig } = (.ok (), { lim := lim, pos := pos + n, orig := orig }) := by
  have : Cur.len { lim := lim, pos := pos, orig := orig } ≥ n := by simp only [Cur.len]; omega
  simp [CurM.skip, CurM.lift0, Cur.skip, this]

/-- **one record of a well-formed message.**  A live reader standing at record `x` (index `idx`) of the
    layout `L` reads it completely: the header call returns its owner and marker with the section the
    counters prescribe, the data call that fits its type returns its value, and the reader stands at
    the next index. -/
theorem readRecord_decode (msg : Bytes) (L : Lay) (hL : L.WF) (r : Reader) (hA : AtIndex msg L r)
    (hi : idx r.tr < L.n) (x : RecSpec) (hx : x.WF msg) (hoff : x.off = L.rOff (idx r.tr))
    (hend : x.endp = L.rOff (idx r.tr + 1)) :
    ∃ s r', r.readRecord msg = (.ok { name := nameText x.labels, marker := x.marker s, val := x.val msg }, r') ∧
      SecOf L r.tr s ∧ AtIndex msg L r' ∧ idx r'.tr = idx r.tr + 1 ∧ r'.tr.qd = r.tr.qd := by
  obtain ⟨hname, hfit, hty, hcl, httl, hrd, hbody⟩ := hx
  have hcur := hA.cur
  have hlim : r.cur.lim = msg.size := by rw [hcur]; rfl
  have hpos : r.cur.pos = x.off := by rw [hA.pos, hoff]
  have horig : r.cur.orig = none := hA.orig
  -- header
  obtain ⟨s, t', hns, hsecof, _, _, hsame, hqd, hk, hT1, _⟩ := header_attribution L hL r.tr hA.tinv hi
  rw [← hA.pos] at hns
  have hname' : LegalName msg r.cur.lim r.cur.pos x.labels x.nxt := by rw [hlim, hpos]; exact hname
  have hhd := record_header_decode msg r (.owned .heap) (by rw [hlim]; exact Nat.le_refl _) s t' hns x.labels x.nxt hname'
    (by rw [hlim]; omega)
  have hh : r.recordHeader msg (.owned .heap) =
      (.ok (.owned (nameText x.labels), x.marker s), { r with cur := r.cur.setPos (x.nxt + 10), tr := t' }) := by
    unfold Reader.recordHeader
    simp only [hA.live, Bool.false_eq_true, if_false, hhd, markDone, hnameOf, RecSpec.marker, hpos, ← hty, ← hcl, ← httl,
      ← hrd]
  have hr1 : RInv msg { r with cur := r.cur.setPos (x.nxt + 10), tr := t' } := by
    have := recordHeader_ok (msg := msg) hA.inv (.owned .heap); rw [hh] at this; exact this.2
  refine ⟨s, ?_⟩
  -- the cursor after the header, spelled out
  have hc1 : r.cur.setPos (x.nxt + 10) = { lim := msg.size, pos := x.nxt + 10, orig := none } := by
    simp only [Cur.setPos, hlim, horig]
  have hsecof1 : SecOf L t' s := ⟨hsecof.1, by intro j hj; rw [hsame]; exact hsecof.2.1 j hj, by rw [hsame]; exact hsecof.2.2⟩
  have hidx1 : idx t' = idx r.tr := idx_congr hsame
  obtain ⟨t2, hsr, hT2, hi2, hqd2, _, _⟩ := sectionRead_spec L hL t' hT1 s hsecof1 hk
  rw [hidx1, ← hend] at hsr
  have hsr' : t'.sectionRead s (x.nxt + 10 + x.rdlen) = .ok t2 := hsr
  have hendp : x.endp = x.nxt + 10 + x.rdlen := rfl
  -- data, by kind
  unfold Reader.readRecord
  simp only [hh]
  cases hb : x.body with
  | typed t v =>
    rw [hb] at hbody
    obtain ⟨hof, hrda⟩ := hbody
    have hdec := rdata_decode msg t (x.nxt + 10) x.rdlen v msg.size hrda (by omega) (Nat.le_refl _)
    have hd : Reader.data msg t { r with cur := r.cur.setPos (x.nxt + 10), tr := t' } (x.marker s) =
        (.ok v, { r with cur := { lim := msg.size, pos := x.nxt + 10 + x.rdlen, orig := none }, tr := t2 }) := by
      unfold Reader.data Reader.assertAt
      simp only [RecSpec.marker_rdataPos, RecSpec.marker_rdlen, RecSpec.marker_section, hc1, if_true, hA.live,
        Bool.false_eq_true, if_false, Reader.onCur, hdec, Reader.finishData, hsr']
    simp only [RecSpec.marker_rtype, hof, hd, RecSpec.val, hb]
    refine ⟨_, rfl, hsecof, ?_, by simp only; rw [hi2, hidx1], by simp only; rw [hqd2, hqd]⟩
    have hr2 := data_ok (msg := msg) hr1 t (x.marker s)
    rw [hd] at hr2
    exact ⟨hr2.2, rfl, by simp only; rw [hi2, hidx1, ← hend]; rfl, hT2, hA.live⟩
  | opt =>
    rw [hb] at hbody
    have hof : RType.ofCode x.rtype = none := by rw [hbody]; decide
    have hsk := skip_at msg.size (x.nxt + 10) x.rdlen none (by omega)
    have hd : Reader.optRecord { r with cur := r.cur.setPos (x.nxt + 10), tr := t' } (x.marker s) =
        (.ok (Opt.fromMsg x.rclass x.ttl),
         { r with cur := { lim := msg.size, pos := x.nxt + 10 + x.rdlen, orig := none }, tr := t2 }) := by
      unfold Reader.optRecord Reader.assertAt
      simp only [hA.live, Bool.false_eq_true, if_false, RecSpec.marker_rdataPos, RecSpec.marker_rdlen,
        RecSpec.marker_section, RecSpec.marker_rtype, RecSpec.marker_rclass, RecSpec.marker_ttl, hc1, if_true, hbody,
        ne_eq, not_true_eq_false, Reader.onCur, hsk, Reader.finishData, hsr']
    simp only [RecSpec.marker_rtype, hof, hbody, if_true, hd, RecSpec.val, hb]
    refine ⟨_, rfl, hsecof, ?_, by simp only; rw [hi2, hidx1], by simp only; rw [hqd2, hqd]⟩
    have hr2 := optRecord_ok (msg := msg) hr1 (x.marker s)
    rw [hd] at hr2
    exact ⟨hr2.2, rfl, by simp only; rw [hi2, hidx1, ← hend]; rfl, hT2, hA.live⟩
  | raw =>
    rw [hb] at hbody
    obtain ⟨hof, hne⟩ := hbody
    have hsl := slice_at msg msg.size (x.nxt + 10) x.rdlen none (by omega) (Nat.le_refl _)
    have hd : Reader.dataBytes msg { r with cur := r.cur.setPos (x.nxt + 10), tr := t' } (x.marker s) =
        (.ok (msg.extract (x.nxt + 10) (x.nxt + 10 + x.rdlen)),
         { r with cur := { lim := msg.size, pos := x.nxt + 10 + x.rdlen, orig := none }, tr := t2 }) := by
      unfold Reader.dataBytes Reader.assertAt
      simp only [hA.live, Bool.false_eq_true, if_false, RecSpec.marker_rdataPos, RecSpec.marker_rdlen,
        RecSpec.marker_section, hc1, if_true, Reader.onCur, hsl, Reader.finishData, hsr']
    simp only [RecSpec.marker_rtype, hof, hne, if_false, hd, RecSpec.val, hb]
    refine ⟨_, rfl, hsecof, ?_, by simp only; rw [hi2, hidx1], by simp only; rw [hqd2, hqd]⟩
    have hr2 := dataBytes_ok (msg := msg) hr1 (x.marker s)
    rw [hd] at hr2
    exact ⟨hr2.2, rfl, by simp only; rw [hi2, hidx1, ← hend]; rfl, hT2, hA.live⟩

/-! ### the layout `Lay` of a specified message -/

/-- offset of the `i`-th record, or the end of the records -/
def rOffFn (rs : List RecSpec) (e : Nat) (i : Nat) : Nat :=
  match rs[i]? with
  | some x => x.off
  | none => e

/-- position after `j` questions that start at `base` -/
def qEndFn (base : Nat) (qs : List QSpec) (j : Nat) : Nat :=
  match j with
  | 0 => base
  | j + 1 => match qs[j]? with
    | some q => q.endp
    | none => base

def layOf (h : Header) (qs : List QSpec) (rs : List RecSpec) (e : Nat) : Lay :=
  { qd := h.qd
    tot := fun j => if j = 0 then h.an else if j = 1 then h.ns else if j = 2 then h.ar else 0
    qEnd := qEndFn 12 qs
    rOff := rOffFn rs e }

@[simp] theorem rOffFn_zero (x : RecSpec) (xs : List RecSpec) (e : Nat) : rOffFn (x :: xs) e 0 = x.off := rfl
@[simp] theorem rOffFn_succ (x : RecSpec) (xs : List RecSpec) (e i : Nat) :
    rOffFn (x :: xs) e (i + 1) = rOffFn xs e i := by
  simp [rOffFn]
@[simp] theorem rOffFn_nil (e i : Nat) : rOffFn [] e i = e := by simp [rOffFn]

theorem RecSpec.WF.lt {msg : Bytes} {x : RecSpec} (h : x.WF msg) : x.off < x.endp ∧ x.endp ≤ msg.size := by
  have := h.1.lt
  have := h.2.1
  simp only [RecSpec.endp]; omega

theorem RecsAt.nil_eq {msg : Bytes} {p e : Nat} (h : RecsAt msg p [] e) : e = p := by
  generalize hl : ([] : List RecSpec) = l at h
  cases h with
  | nil => rfl
  | cons x xs e _ _ => cases hl

/-- in a chain of records: every record is well-formed, starts where the layout says and ends where the
    next one starts; all positions lie in `[p, msg.size]` -/
theorem RecsAt.chain {msg : Bytes} {p e : Nat} {rs : List RecSpec} (h : RecsAt msg p rs e) :
    rOffFn rs e 0 = p ∧ p ≤ e ∧ (rs ≠ [] → e ≤ msg.size) ∧
    (∀ i, i < rs.length → ∃ x, rs[i]? = some x ∧ x.WF msg ∧ x.off = rOffFn rs e i ∧ x.endp = rOffFn rs e (i + 1)) ∧
    (∀ i, p ≤ rOffFn rs e i ∧ rOffFn rs e i ≤ e) := by
  induction h with
  | nil p => simp
  | cons x xs e hx hrest ih =>
    obtain ⟨h0, hle, hsz, hall, hrng⟩ := ih
    have hlt := hx.lt
    refine ⟨rfl, by omega, ?_, ?_, ?_⟩
    · intro _
      by_cases hn : xs = []
      · subst hn; rw [RecsAt.nil_eq hrest]; exact hlt.2
      · exact hsz hn
    · intro i hi
      cases i with
      | zero => exact ⟨x, rfl, hx, rfl, by simp [h0]⟩
      | succ i =>
        obtain ⟨y, hy, hw, ho, he⟩ := hall i (by simpa using hi)
        exact ⟨y, by simpa using hy, hw, by simpa using ho, by simpa using he⟩
    · intro i
      cases i with
      | zero => simp; omega
      | succ i =>
        have := hrng i
        simp only [rOffFn_succ]; omega

theorem QSpec.WF.lt {msg : Bytes} {q : QSpec} (h : q.WF msg) : q.off < q.endp ∧ q.endp ≤ msg.size := by
  have := h.1.lt
  have := h.2.1
  simp only [QSpec.endp]; omega

theorem qEndFn_cons_succ (base : Nat) (q : QSpec) (qs : List QSpec) (j : Nat) (hj : j ≤ qs.length) :
    qEndFn base (q :: qs) (j + 1) = qEndFn q.endp qs j := by
  cases j with
  | zero => simp [qEndFn]
  | succ k =>
    have hk : k < qs.length := by omega
    simp [qEndFn, List.getElem?_eq_getElem hk]

theorem QsAt.chain {msg : Bytes} {p e : Nat} {qs : List QSpec} (h : QsAt msg p qs e) :
    qEndFn p qs qs.length = e ∧ p ≤ e ∧ (qs ≠ [] → e ≤ msg.size) ∧
    (∀ j, j < qs.length → ∃ q, qs[j]? = some q ∧ q.WF msg ∧ q.off = qEndFn p qs j ∧ q.endp = qEndFn p qs (j + 1)) := by
  induction h with
  | nil p => simp [qEndFn]
  | cons q qs e hq hrest ih =>
    obtain ⟨hend, hle, hsz, hall⟩ := ih
    have hlt := hq.lt
    refine ⟨?_, by omega, ?_, ?_⟩
    · rw [List.length_cons, qEndFn_cons_succ _ _ _ _ (Nat.le_refl _)]; exact hend
    · intro _
      by_cases hn : qs = []
      · subst hn
        simp [qEndFn] at hend
        omega
      · exact hsz hn
    · intro j hj
      cases j with
      | zero => exact ⟨q, rfl, hq, rfl, by simp [qEndFn]⟩
      | succ j =>
        have hj' : j < qs.length := by simpa using hj
        obtain ⟨y, hy, hw, ho, he⟩ := hall j hj'
        refine ⟨y, by simpa using hy, hw, ?_, ?_⟩
        · rw [qEndFn_cons_succ _ _ _ _ (by omega)]; exact ho
        · rw [qEndFn_cons_succ _ _ _ _ (by omega)]; exact he

theorem recordsLeft_eq {L : Lay} {t : Tracker} (h : TInv L t) : t.recordsLeft = .ok (L.n - idx t) := by
  have l0 := h.le0; have l1 := h.le1; have l2 := h.le2
  have t0 := h.t0; have t1 := h.t1; have t2 := h.t2
  have a0 : ¬ (t.sec 0).read > (t.sec 0).total := by omega
  have a1 : ¬ (t.sec 1).read > (t.sec 1).total := by omega
  have a2 : ¬ (t.sec 2).read > (t.sec 2).total := by omega
  simp only [Tracker.recordsLeft, Counts.left, a0, a1, a2, if_false, Res.ok.injEq, Lay.n, idx]
  omega

/-- the section index `i` lies in -/
def secAt (L : Lay) (i : Nat) : Nat := if i < L.tot 0 then 0 else if i < L.tot 0 + L.tot 1 then 1 else 2

theorem SecOf.eq_secAt {L : Lay} {t : Tracker} (h : TInv L t) {s : Nat} (hs : SecOf L t s) : s = secAt L (idx t) := by
  have hb := SecOf.bounds h hs
  have h3 := hs.1
  have : s = 0 ∨ s = 1 ∨ s = 2 := by omega
  unfold secAt
  rcases this with rfl | rfl | rfl
  · simp only [Lay.start_zero] at hb
    have : idx t < L.tot 0 := by omega
    simp [this]
  · simp only [Lay.start_one] at hb
    have a : ¬ idx t < L.tot 0 := by omega
    have b : idx t < L.tot 0 + L.tot 1 := by omega
    simp [a, b]
  · simp only [Lay.start_two] at hb
    have a : ¬ idx t < L.tot 0 := by omega
    have b : ¬ idx t < L.tot 0 + L.tot 1 := by omega
    simp [a, b]

/-- what the pass must report for the records `xs` that start at index `i` -/
def expItems (L : Lay) (msg : Bytes) : Nat → List RecSpec → List PassRec
  | _, [] => []
  | i, x :: xs => { name := nameText x.labels, marker := x.marker (secAt L i), val := x.val msg } ::
      expItems L msg (i + 1) xs

/-- **all records.**  From a live reader at index `i` with exactly the records `xs` left, the record
    loop returns exactly their items, in order, and ends — with every counter exhausted. -/
theorem readRecords_decode (msg : Bytes) (L : Lay) (hL : L.WF) :
    ∀ (xs : List RecSpec) (r : Reader) (acc : List PassRec) (fuel : Nat), AtIndex msg L r →
      idx r.tr + xs.length = L.n → xs.length < fuel →
      (∀ j, j < xs.length → ∃ x, xs[j]? = some x ∧ x.WF msg ∧ x.off = L.rOff (idx r.tr + j) ∧
        x.endp = L.rOff (idx r.tr + j + 1)) →
      ∃ r', Reader.readRecords msg fuel r acc = (acc.reverse ++ expItems L msg (idx r.tr) xs, .ok (), r') ∧
        AtIndex msg L r' ∧ idx r'.tr = L.n ∧ r'.tr.qd = r.tr.qd := by
  intro xs
  induction xs with
  | nil =>
    intro r acc fuel hA hn _ _
    have hcnt : r.recordsCount = .ok 0 := by
      simp only [Reader.recordsCount, hA.live, Bool.not_false, if_true, recordsLeft_eq hA.tinv]
      simp only [List.length_nil, Nat.add_zero] at hn
      simp [hn]
    refine ⟨r, ?_, hA, by simpa using hn, rfl⟩
    cases fuel with
    | zero => simp [Reader.readRecords, expItems]
    | succ f => simp [Reader.readRecords, hcnt, expItems]
  | cons x xs ih =>
    intro r acc fuel hA hn hf hspec
    simp only [List.length_cons] at hn hf
    obtain ⟨x0, hx0, hw, ho, he⟩ := hspec 0 (by simp)
    simp only [List.getElem?_cons_zero, Option.some.injEq] at hx0
    subst hx0
    have hi : idx r.tr < L.n := by omega
    obtain ⟨s, r1, hrr, hsec, hA1, hi1, hq1⟩ := readRecord_decode msg L hL r hA hi x hw (by simpa using ho) (by simpa using he)
    have hs : s = secAt L (idx r.tr) := SecOf.eq_secAt hA.tinv hsec
    subst hs
    have hcnt : r.recordsCount = .ok (L.n - idx r.tr) := by
      simp only [Reader.recordsCount, hA.live, Bool.not_false, if_true, recordsLeft_eq hA.tinv]
    cases fuel with
    | zero => omega
    | succ f =>
      have hne : ¬ (L.n - idx r.tr = 0) := by omega
      obtain ⟨r', hrec, hA', hi', hq'⟩ := ih r1 ({ name := nameText x.labels, marker := x.marker (secAt L (idx r.tr)), val := x.val msg } :: acc)
        f hA1 (by omega) (by omega) (by
          intro j hj
          obtain ⟨y, hy, hyw, hyo, hye⟩ := hspec (j + 1) (by simp; omega)
          refine ⟨y, by simpa using hy, hyw, ?_, ?_⟩
          · rw [hyo, hi1]; congr 1; omega
          · rw [hye, hi1]; congr 1; omega)
      refine ⟨r', ?_, hA', hi', by rw [hq', hq1]⟩
      rw [Reader.readRecords]
      simp only [hcnt, hne, if_false, hrr, hrec, hi1, expItems, List.reverse_cons, List.append_assoc,
        List.singleton_append]

/-- a live reader inside the question section, after `qd.read` questions -/
structure QIndex (msg : Bytes) (L : Lay) (r : Reader) : Prop where
  inv : RInv msg r
  orig : r.cur.orig = none
  live : r.done = false
  tinv : TInv L r.tr
  idx0 : idx r.tr = 0
  pos : r.cur.pos = L.qEnd r.tr.qd.read
  le : r.tr.qd.read ≤ L.qd

def QSpec.question (q : QSpec) : Question := { qname := nameText q.labels, qtype := q.qtype, qclass := q.qclass }

theorem question_step (msg : Bytes) (L : Lay) (hL : L.WF) (r : Reader) (hQ : QIndex msg L r)
    (hlt : r.tr.qd.read < L.qd) (q : QSpec) (hq : q.WF msg) (hoff : q.off = L.qEnd r.tr.qd.read)
    (hend : q.endp = L.qEnd (r.tr.qd.read + 1)) :
    ∃ r', r.question msg .question = (.ok (.owned q.question), r') ∧ QIndex msg L r' ∧
      r'.tr.qd.read = r.tr.qd.read + 1 := by
  obtain ⟨hname, hfit, hty, hcl⟩ := hq
  have hf := hQ.inv.2
  have horig := hQ.orig
  have hlim : r.cur.lim = msg.size := by
    simp only [Cur.full, horig, Option.getD_none] at hf; exact hf
  have hpos : r.cur.pos = q.off := by rw [hQ.pos, hoff]
  have hdec := (question_decode msg r.cur (by rw [hlim]; exact Nat.le_refl _) q.labels q.nxt
    (by rw [hlim, hpos]; exact hname) (by rw [hlim]; exact hfit)).1
  obtain ⟨t', hqr, hT, hsec, hrd, _⟩ := questionRead_spec L hL r.tr hQ.tinv hlt
  rw [← hend] at hqr
  have hleft : r.tr.questionsLeft = .ok (L.qd - r.tr.qd.read) := by
    have htq := hQ.tinv.tq
    have hng : ¬ r.tr.qd.read > L.qd := by omega
    simp only [Tracker.questionsLeft, Counts.left, htq, hng, if_false]
  have hne : (L.qd - r.tr.qd.read == 0) = false := by
    simp only [beq_eq_false_iff_ne, ne_eq]; omega
  have he : r.question msg .question =
      (.ok (.owned q.question), { r with cur := r.cur.setPos (q.nxt + 4), tr := t' }) := by
    unfold Reader.question
    simp only [hQ.live, Bool.false_eq_true, if_false, hleft, hne]
    simp only [show (QKind.question == QKind.theQuestion || QKind.question == QKind.theQuestionRef) = false from by decide,
      show (QKind.question == QKind.question || QKind.question == QKind.theQuestion) = true from by decide,
      Bool.not_false, Bool.true_and, Bool.false_and, Bool.false_eq_true, if_false]
    simp only [Reader.readQ, if_true, Reader.onCur, hdec, Reader.afterQ, Cur.setPos, ← hty, ← hcl]
    have hqr' : r.tr.questionRead (q.nxt + 4) = .ok t' := hqr
    simp only [hqr', QSpec.question, hQ.live]
  refine ⟨_, he, ?_, hrd⟩
  have hok := question_ok (msg := msg) hQ.inv .question
  rw [he] at hok
  refine ⟨hok.2, horig, hQ.live, hT, by rw [idx_congr hsec]; exact hQ.idx0, ?_, by simp only; omega⟩
  simp only [Cur.setPos, hrd]
  exact hend

/-- **all questions.** -/
theorem readQuestions_decode (msg : Bytes) (L : Lay) (hL : L.WF) :
    ∀ (qs : List QSpec) (r : Reader) (acc : List Question) (fuel : Nat), QIndex msg L r →
      r.tr.qd.read + qs.length = L.qd → qs.length < fuel →
      (∀ j, j < qs.length → ∃ q, qs[j]? = some q ∧ q.WF msg ∧ q.off = L.qEnd (r.tr.qd.read + j) ∧
        q.endp = L.qEnd (r.tr.qd.read + j + 1)) →
      ∃ r', Reader.readQuestions msg fuel r acc = (acc.reverse ++ qs.map QSpec.question, .ok (), r') ∧
        QIndex msg L r' ∧ r'.tr.qd.read = L.qd := by
  intro qs
  induction qs with
  | nil =>
    intro r acc fuel hQ hn _ _
    simp only [List.length_nil, Nat.add_zero] at hn
    have hcnt : r.questionsCount = .ok 0 := by
      have htq := hQ.tinv.tq
      have hng : ¬ r.tr.qd.read > L.qd := by omega
      simp only [Reader.questionsCount, hQ.live, Bool.not_false, if_true, Tracker.questionsLeft, Counts.left, htq, hng,
        if_false]
      rw [hn, Nat.sub_self]
    refine ⟨r, ?_, hQ, hn⟩
    cases fuel with
    | zero => simp [Reader.readQuestions]
    | succ f => simp [Reader.readQuestions, hcnt]
  | cons q qs ih =>
    intro r acc fuel hQ hn hf hspec
    simp only [List.length_cons] at hn hf
    obtain ⟨q0, hq0, hw, ho, he⟩ := hspec 0 (by simp)
    simp only [List.getElem?_cons_zero, Option.some.injEq] at hq0
    subst hq0
    have hlt : r.tr.qd.read < L.qd := by omega
    obtain ⟨r1, hqq, hQ1, hrd1⟩ := question_step msg L hL r hQ hlt q hw (by simpa using ho) (by simpa using he)
    have hcnt : r.questionsCount = .ok (L.qd - r.tr.qd.read) := by
      have htq := hQ.tinv.tq
      have hng : ¬ r.tr.qd.read > L.qd := by omega
      simp only [Reader.questionsCount, hQ.live, Bool.not_false, if_true, Tracker.questionsLeft, Counts.left, htq, hng,
        if_false]
    cases fuel with
    | zero => omega
    | succ f =>
      have hne : ¬ (L.qd - r.tr.qd.read = 0) := by omega
      obtain ⟨r', hrec, hQ', hrd'⟩ := ih r1 (q.question :: acc) f hQ1 (by omega) (by omega) (by
        intro j hj
        obtain ⟨y, hy, hyw, hyo, hye⟩ := hspec (j + 1) (by simp; omega)
        refine ⟨y, by simpa using hy, hyw, ?_, ?_⟩
        · rw [hyo, hrd1]; congr 1; omega
        · rw [hye, hrd1]; congr 1; omega)
      refine ⟨r', ?_, hQ', hrd'⟩
      rw [Reader.readQuestions]
      simp only [hcnt, hne, if_false, hqq, hrec, List.reverse_cons, List.append_assoc, List.singleton_append,
        List.map_cons]

theorem beNat2_lt (msg : Bytes) (p : Nat) : Cur.beNat msg p 2 < 65536 := by
  have a := (msg.getD p 0).toNat_lt
  have b := (msg.getD (p + 1) 0).toNat_lt
  simp only [Cur.beNat, Nat.pow_zero, Nat.pow_one, Nat.mul_one, Nat.add_zero]
  omega

/-- the records a pass must report, with sections taken from the header counts -/
def expRecords (h : Header) (msg : Bytes) : Nat → List RecSpec → List PassRec
  | _, [] => []
  | i, x :: xs => { name := nameText x.labels, marker := x.marker (sectionOf h i), val := x.val msg } ::
      expRecords h msg (i + 1) xs

theorem expItems_eq (h : Header) (qs : List QSpec) (rs0 : List RecSpec) (e : Nat) (msg : Bytes) :
    ∀ (xs : List RecSpec) (i : Nat), expItems (layOf h qs rs0 e) msg i xs = expRecords h msg i xs := by
  intro xs
  induction xs with
  | nil => intro i; rfl
  | cons x xs ih =>
    intro i
    simp only [expItems, expRecords, ih]
    rfl

theorem layOf_wf (msg : Bytes) (h : Header) (qs : List QSpec) (rs : List RecSpec) (hm : MsgAt msg h qs rs)
    (qe e : Nat) (hqs : QsAt msg 12 qs qe) (hrs : RecsAt msg qe rs e) : (layOf h qs rs e).WF := by
  obtain ⟨hqend, hqle, hqsz, _⟩ := hqs.chain
  obtain ⟨hr0, hrle, hrsz, _, hrng⟩ := hrs.chain
  have hqe : qe ≤ msg.size := by
    by_cases hn : qs = []
    · subst hn; simp [qEndFn] at hqend; have := hm.hlen; omega
    · exact hqsz hn
  have he : e ≤ msg.size := by
    by_cases hn : rs = []
    · subst hn; rw [RecsAt.nil_eq hrs]; exact hqe
    · exact hrsz hn
  have hsz := hm.size
  refine ⟨?_, ?_, ?_, ?_⟩
  · show rOffFn rs e 0 = qEndFn 12 qs h.qd
    rw [hr0, hm.nq, hqend]
  · intro i
    have := hrng i
    show 0 < rOffFn rs e i ∧ rOffFn rs e i < 65536
    omega
  · intro j
    show (if j = 0 then h.an else if j = 1 then h.ns else if j = 2 then h.ar else 0) ≤ 65535
    have a := beNat2_lt msg 6; have b := beNat2_lt msg 8; have c := beNat2_lt msg 10
    rw [← hm.an] at a; rw [← hm.ns] at b; rw [← hm.ar] at c
    split
    · omega
    · split
      · omega
      · split <;> omega
  · show h.qd ≤ 65535
    have a := beNat2_lt msg 4
    rw [← hm.qd] at a
    omega


end Rsdns.C02
