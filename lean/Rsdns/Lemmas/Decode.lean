/-
  Rsdns.Lemmas.Decode — positive evaluation lemmas for the cursor primitives on explicit cursors, names in
  legal layouts, the TXT loop, and the window wrapper of `read_rr_data` (helpers of Rsdns.Props.C02).
-/
import Rsdns.Spec.Wire
import Rsdns.Lemmas.Reader
import Rsdns.Props.C03

set_option linter.unusedVariables false

namespace Rsdns.C02

open Rsdns Generated Spec

theorem rBe_ok (msg : Bytes) (c : Cur) (n : Nat) (h1 : c.pos + n ≤ c.lim) (h2 : c.lim ≤ msg.size) :
    Cur.rBe msg c n = .ok (Cur.beNat msg c.pos n, { c with pos := c.pos + n }) := by
  unfold Cur.rBe Cur.len
  have a : c.lim - c.pos ≥ n := by omega
  have b : c.pos ≤ c.lim ∧ c.pos + n ≤ msg.size := by omega
  simp only [a, b, and_self, if_true]

theorem u16be_ok (msg : Bytes) (c : Cur) (h1 : c.pos + 2 ≤ c.lim) (h2 : c.lim ≤ msg.size) :
    CurM.u16be msg c = (.ok (Cur.beNat msg c.pos 2), { c with pos := c.pos + 2 }) := by
  simp only [CurM.u16be, CurM.lift, Cur.u16be, rBe_ok msg c 2 h1 h2]

theorem u32be_ok (msg : Bytes) (c : Cur) (h1 : c.pos + 4 ≤ c.lim) (h2 : c.lim ≤ msg.size) :
    CurM.u32be msg c = (.ok (Cur.beNat msg c.pos 4), { c with pos := c.pos + 4 }) := by
  simp only [CurM.u32be, CurM.lift, Cur.u32be, rBe_ok msg c 4 h1 h2]

theorem u16be_at (msg : Bytes) (lim pos : Nat) (orig : Option Nat) (h1 : pos + 2 ≤ lim) (h2 : lim ≤ msg.size) :
    CurM.u16be msg { lim := lim, pos := pos, orig := orig } =
      (.ok (Cur.beNat msg pos 2), { lim := lim, pos := pos + 2, orig := orig }) :=
  u16be_ok msg _ h1 h2

theorem u32be_at (msg : Bytes) (lim pos : Nat) (orig : Option Nat) (h1 : pos + 4 ≤ lim) (h2 : lim ≤ msg.size) :
    CurM.u32be msg { lim := lim, pos := pos, orig := orig } =
      (.ok (Cur.beNat msg pos 4), { lim := lim, pos := pos + 4, orig := orig }) :=
  u32be_ok msg _ h1 h2

theorem LegalName.lt {msg lim pos ls nxt} (h : LegalName msg lim pos ls nxt) : pos < nxt := by
  obtain ⟨hops, hn, _⟩ := h
  exact Expand.lt_next (NameAt.expand hn)

theorem readName_legal (k : NameKind) (msg : Bytes) (c : Cur) (ls : List Bytes) (nxt : Nat)
    (h : LegalName msg c.lim c.pos ls nxt) :
    CurM.readName k msg c = (.ok (nameText ls), c.setPos nxt) := by
  obtain ⟨hops, hn, hh, hck, hlen⟩ := h
  simp only [CurM.readName, CurM.lift, C03.read_complete k msg c ls nxt hops hn hh hck hlen]

theorem skipName_legal (msg : Bytes) (c : Cur) (ls : List Bytes) (nxt : Nat)
    (h : LegalName msg c.lim c.pos ls nxt) :
    ∃ n, CurM.skipName msg c = (.ok n, c.setPos nxt) := by
  obtain ⟨hops, hn, hh, hck, hlen⟩ := h
  obtain ⟨n, he⟩ := C03.skip_complete msg c ls nxt hops hn hh hck
  exact ⟨n, by simp only [CurM.skipName, CurM.lift, he]⟩

theorem u8_at (msg : Bytes) (lim pos : Nat) (orig : Option Nat) (h1 : pos < lim) (h2 : lim ≤ msg.size) :
    CurM.u8 msg { lim := lim, pos := pos, orig := orig } =
      (.ok (msg.getD pos 0), { lim := lim, pos := pos + 1, orig := orig }) := by
  have hlt : pos < msg.size := by omega
  have hv : msg[pos]? = some (msg.getD pos 0) := by
    simp [Array.getD, hlt]
  simp only [CurM.u8, CurM.lift, Cur.u8_eq (c := { lim := lim, pos := pos, orig := orig }) h1 hv]

theorem slice_at (msg : Bytes) (lim pos n : Nat) (orig : Option Nat) (h1 : pos + n ≤ lim) (h2 : lim ≤ msg.size) :
    CurM.slice msg n { lim := lim, pos := pos, orig := orig } =
      (.ok (msg.extract pos (pos + n)), { lim := lim, pos := pos + n, orig := orig }) := by
  simp only [CurM.slice, CurM.lift, Cur.slice_eq (c := { lim := lim, pos := pos, orig := orig }) h1 h2]

theorem u128be_at (msg : Bytes) (lim pos : Nat) (orig : Option Nat) (h1 : pos + 16 ≤ lim) (h2 : lim ≤ msg.size) :
    CurM.u128be msg { lim := lim, pos := pos, orig := orig } =
      (.ok (Cur.beNat msg pos 16), { lim := lim, pos := pos + 16, orig := orig }) := by
  simp only [CurM.u128be, CurM.lift, Cur.u128be,
    rBe_ok msg { lim := lim, pos := pos, orig := orig } 16 h1 h2]

theorem window_at (msg : Bytes) (lim pos n : Nat) (h1 : pos + n ≤ lim) (h2 : lim ≤ msg.size) :
    CurM.window msg n { lim := lim, pos := pos, orig := none } =
      (.ok (), { lim := pos + n, pos := pos, orig := some lim }) := by
  have hf : Cur.fits { lim := lim, pos := pos, orig := none } n = true := by
    simp only [Cur.fits, Cur.len, Bool.and_eq_true, decide_eq_true_eq]
    refine ⟨by omega, ?_⟩
    exact decide_eq_true (by omega)
  have hb : pos + n ≤ lim ∧ lim ≤ msg.size := ⟨h1, h2⟩
  simp [CurM.window, CurM.lift0, Cur.window, hf, hb]

theorem closeWindow_at (p o : Nat) :
    CurM.closeWindow { lim := p, pos := p, orig := some o } = (.ok (), { lim := o, pos := p, orig := none }) := by
  simp [CurM.closeWindow, CurM.lift0, Cur.closeWindow]

theorem readName_at (k : NameKind) (msg : Bytes) (lim pos : Nat) (orig : Option Nat) (ls : List Bytes) (nxt : Nat)
    (h : LegalName msg lim pos ls nxt) :
    CurM.readName k msg { lim := lim, pos := pos, orig := orig } =
      (.ok (nameText ls), { lim := lim, pos := nxt, orig := orig }) :=
  readName_legal k msg { lim := lim, pos := pos, orig := orig } ls nxt h

/-- `read_rr_data` = open the RDLENGTH window, run the body, demand that it ends exactly at the window's end -/
theorem readRData_of_body (t : RType) (msg : Bytes) (lim p n : Nat) (v : RData) (h1 : p + n ≤ lim) (h2 : lim ≤ msg.size)
    (hb : readRDataBody t msg n { lim := p + n, pos := p, orig := some lim } =
      (.ok v, { lim := p + n, pos := p + n, orig := some lim })) :
    readRData t msg n { lim := lim, pos := p, orig := none } = (.ok v, { lim := lim, pos := p + n, orig := none }) := by
  simp only [readRData, bind, CurM.bind, window_at msg lim p n h1 h2, hb, closeWindow_at, pure, CurM.pure]

theorem CharStrings.le {msg : Bytes} {p q : Nat} {ss : List Bytes} (h : CharStrings msg p ss q) : p ≤ q := by
  induction h with
  | nil p => exact Nat.le_refl _
  | cons p s ss q _ _ ih => omega

theorem txtLoop_strings (msg : Bytes) (W : Nat) (o : Option Nat) (hW : W ≤ msg.size) :
    ∀ (ss : List Bytes) (p : Nat) (acc : Bytes), CharStrings msg p ss W →
      txtLoop msg (W - p) acc { lim := W, pos := p, orig := o } =
        (.ok (acc ++ concatBytes ss), { lim := W, pos := W, orig := o }) := by
  intro ss
  induction ss with
  | nil =>
    intro p acc h
    cases h
    rw [txtLoop]
    simp [concatBytes]
  | cons s ss ih =>
    intro p acc h
    cases h with
    | cons _ _ _ _ hs hrest =>
      have hle := hrest.le
      have hpos : W - p > 0 := by omega
      have hu := u8_at msg W p o (by omega) hW
      rw [txtLoop]
      simp only [hpos, dite_true]
      split
      · rename_i e c1 heq; rw [hu] at heq; simp at heq
      · rename_i e c1 heq; rw [hu] at heq; simp at heq
      · rename_i c1 heq; rw [hu] at heq; simp at heq
      · rename_i len c1 heq
        rw [hu] at heq
        simp only [Prod.mk.injEq, Res.ok.injEq] at heq
        obtain ⟨rfl, rfl⟩ := heq
        have hnl : ¬ (W - p < (msg.getD p 0).toNat + 1) := by omega
        have hrd : W - p - ((msg.getD p 0).toNat + 1) = W - (p + 1 + (msg.getD p 0).toNat) := by omega
        by_cases hz : (msg.getD p 0).toNat > 0
        · have hsl := slice_at msg W (p + 1) (msg.getD p 0).toNat o (by omega) hW
          simp only [hz, if_true, hsl, hnl, dite_false, hrd]
          rw [ih _ _ hrest]
          simp only [concatBytes, hs, Array.append_assoc]
        · have hz0 : (msg.getD p 0).toNat = 0 := by omega
          simp only [hz, if_false, hnl, dite_false, hrd]
          have hse : s = #[] := by rw [hs, hz0]; simp; omega
          have := ih (p + 1 + (msg.getD p 0).toNat) acc hrest
          simp only [hz0, Nat.add_zero] at this ⊢
          rw [this]
          simp [concatBytes, hse]


end Rsdns.C02
