/-
  Rsdns.Lemmas.Tracker — the section bookkeeping (`SectionTracker`) against the layout of one linear
  pass: definitions (`Lay`, `idx`, `TInv`) and the helper lemmas behind `Rsdns.Props.C09` part 2.
-/
import Rsdns.Lemmas.Reader

set_option linter.unusedVariables false

namespace Rsdns.C09

open Rsdns Generated

structure Lay where
  qd : Nat
  tot : Nat → Nat
  qEnd : Nat → Nat
  rOff : Nat → Nat

namespace Lay
/-- index (in wire order) of the first record of section `s` -/
def start (L : Lay) (s : Nat) : Nat :=
  match s with
  | 0 => 0
  | 1 => L.tot 0
  | _ => L.tot 0 + L.tot 1
def n (L : Lay) : Nat := L.tot 0 + L.tot 1 + L.tot 2
/-- true offset of section `s`: where its first record starts — or, when it is empty, where the next
    record after it starts / the pass ends -/
def secOff (L : Lay) (s : Nat) : Nat := L.rOff (L.start s)

structure WF (L : Lay) : Prop where
  /-- the first record starts where the questions end -/
  q0 : L.rOff 0 = L.qEnd L.qd
  /-- every position of the pass is a non-zero `u16` (in fact ≥ 12: the header precedes them) -/
  rpos : ∀ i, 0 < L.rOff i ∧ L.rOff i < 65536
  /-- header counts are `u16` -/
  tle : ∀ j, L.tot j ≤ 65535
  qle : L.qd ≤ 65535
end Lay

/-- record index the counters stand for -/
def idx (t : Tracker) : Nat := (t.sec 0).read + (t.sec 1).read + (t.sec 2).read

structure TInv (L : Lay) (t : Tracker) : Prop where
  tq : t.qd.total = L.qd
  t0 : (t.sec 0).total = L.tot 0
  t1 : (t.sec 1).total = L.tot 1
  t2 : (t.sec 2).total = L.tot 2
  le0 : (t.sec 0).read ≤ L.tot 0
  le1 : (t.sec 1).read ≤ L.tot 1
  le2 : (t.sec 2).read ≤ L.tot 2
  sh1 : (t.sec 0).read < L.tot 0 → (t.sec 1).read = 0 ∧ (t.sec 2).read = 0
  sh2 : (t.sec 1).read < L.tot 1 → (t.sec 2).read = 0
  o0 : t.off 0 ≠ 0 → t.off 0 = L.secOff 0
  o1 : t.off 1 ≠ 0 → t.off 1 = L.secOff 1
  o2 : t.off 2 ≠ 0 → t.off 2 = L.secOff 2
  k0 : (t.sec 0).read > 0 → t.off 0 ≠ 0
  k1 : (t.sec 1).read > 0 → t.off 1 ≠ 0
  k2 : (t.sec 2).read > 0 → t.off 2 ≠ 0
  d1 : t.off 1 ≠ 0 → t.off 0 ≠ 0
  d2 : t.off 2 ≠ 0 → t.off 1 ≠ 0
  u0 : t.off 0 ≠ 0 → L.tot 0 = 0 → t.off 1 ≠ 0
  u1 : t.off 1 ≠ 0 → L.tot 1 = 0 → t.off 2 ≠ 0

theorem asU16_id {p : Nat} (h : p < 65536) : asU16 p = p := Nat.mod_eq_of_lt h


@[simp] theorem Lay.start_zero (L : Lay) : L.start 0 = 0 := rfl
@[simp] theorem Lay.start_one (L : Lay) : L.start 1 = L.tot 0 := rfl
@[simp] theorem Lay.start_two (L : Lay) : L.start 2 = L.tot 0 + L.tot 1 := rfl

theorem Lay.WF.secOff_ne (L : Lay) (hL : L.WF) (s : Nat) : L.secOff s ≠ 0 := by
  have := hL.rpos (L.start s)
  unfold Lay.secOff; omega

/-- first-record bookkeeping of `next_section` for section `s` (before back-filling) -/
def markFirst (t : Tracker) (pos s : Nat) : Tracker :=
  if (t.sec s).read = 0 ∧ t.off s = 0 then { t with off := upd t.off s (asU16 pos) } else t

theorem nextSection_eq0 (t : Tracker) (pos : Nat) (h : (t.sec 0).read < (t.sec 0).total) :
    t.nextSection pos = (some 0, markFirst t pos 0) := by
  rw [Tracker.nextSection, Tracker.nextSectionFrom]
  simp only [Nat.reduceAdd, Nat.sub_self, if_pos h, backFill, markFirst]

theorem nextSection_eq1 (t : Tracker) (pos : Nat) (h0 : ¬ (t.sec 0).read < (t.sec 0).total)
    (h : (t.sec 1).read < (t.sec 1).total) :
    t.nextSection pos = (some 1, backFill (markFirst t pos 1) pos 1) := by
  rw [Tracker.nextSection, Tracker.nextSectionFrom]
  simp only [Nat.reduceAdd, Nat.sub_self, if_neg h0]
  rw [Tracker.nextSectionFrom]
  simp only [Nat.reduceAdd, Nat.reduceSub, if_pos h, markFirst]

theorem nextSection_eq2 (t : Tracker) (pos : Nat) (h0 : ¬ (t.sec 0).read < (t.sec 0).total)
    (h1 : ¬ (t.sec 1).read < (t.sec 1).total) (h : (t.sec 2).read < (t.sec 2).total) :
    t.nextSection pos = (some 2, backFill (markFirst t pos 2) pos 2) := by
  rw [Tracker.nextSection, Tracker.nextSectionFrom]
  simp only [Nat.reduceAdd, Nat.sub_self, if_neg h0]
  rw [Tracker.nextSectionFrom]
  simp only [Nat.reduceAdd, Nat.reduceSub, if_neg h1]
  rw [Tracker.nextSectionFrom]
  simp only [Nat.reduceAdd, Nat.reduceSub, if_pos h, markFirst]

theorem nextSection_none (L : Lay) (t : Tracker) (h : TInv L t) (pos : Nat) (hi : idx t = L.n) :
    t.nextSection pos = (none, t) := by
  have h0 := h.le0; have h1 := h.le1; have h2 := h.le2
  have e0 := h.t0; have e1 := h.t1; have e2 := h.t2
  unfold idx Lay.n at hi
  have a0 : ¬ (t.sec 0).read < (t.sec 0).total := by omega
  have a1 : ¬ (t.sec 1).read < (t.sec 1).total := by omega
  have a2 : ¬ (t.sec 2).read < (t.sec 2).total := by omega
  simp [Tracker.nextSection, Tracker.nextSectionFrom, a0, a1, a2]

/-- learning offsets: a tracker that differs only by having learned true offsets, and whose known
    offsets are still closed downwards and upwards over empty sections, satisfies the invariant -/
theorem TInv.learn (L : Lay) (hL : L.WF) {t t' : Tracker} (h : TInv L t) (hs : t'.sec = t.sec) (hq : t'.qd = t.qd)
    (h0 : t'.off 0 = t.off 0 ∨ (t.off 0 = 0 ∧ t'.off 0 = L.secOff 0))
    (h1 : t'.off 1 = t.off 1 ∨ (t.off 1 = 0 ∧ t'.off 1 = L.secOff 1))
    (h2 : t'.off 2 = t.off 2 ∨ (t.off 2 = 0 ∧ t'.off 2 = L.secOff 2))
    (d1 : t'.off 1 ≠ 0 → t'.off 0 ≠ 0) (d2 : t'.off 2 ≠ 0 → t'.off 1 ≠ 0)
    (u0 : t'.off 0 ≠ 0 → L.tot 0 = 0 → t'.off 1 ≠ 0) (u1 : t'.off 1 ≠ 0 → L.tot 1 = 0 → t'.off 2 ≠ 0) :
    TInv L t' := by
  have n0 := Lay.WF.secOff_ne L hL 0
  have n1 := Lay.WF.secOff_ne L hL 1
  have n2 := Lay.WF.secOff_ne L hL 2
  constructor
  · rw [hq]; exact h.tq
  · rw [hs]; exact h.t0
  · rw [hs]; exact h.t1
  · rw [hs]; exact h.t2
  · rw [hs]; exact h.le0
  · rw [hs]; exact h.le1
  · rw [hs]; exact h.le2
  · rw [hs]; exact h.sh1
  · rw [hs]; exact h.sh2
  · intro hx; rcases h0 with e | ⟨_, e⟩
    · rw [e] at hx ⊢; exact h.o0 hx
    · exact e
  · intro hx; rcases h1 with e | ⟨_, e⟩
    · rw [e] at hx ⊢; exact h.o1 hx
    · exact e
  · intro hx; rcases h2 with e | ⟨_, e⟩
    · rw [e] at hx ⊢; exact h.o2 hx
    · exact e
  · rw [hs]; intro hx; rcases h0 with e | ⟨_, e⟩
    · rw [e]; exact h.k0 hx
    · rw [e]; exact n0
  · rw [hs]; intro hx; rcases h1 with e | ⟨_, e⟩
    · rw [e]; exact h.k1 hx
    · rw [e]; exact n1
  · rw [hs]; intro hx; rcases h2 with e | ⟨_, e⟩
    · rw [e]; exact h.k2 hx
    · rw [e]; exact n2
  · exact d1
  · exact d2
  · exact u0
  · exact u1

theorem markFirst_sec (t : Tracker) (pos s : Nat) : (markFirst t pos s).sec = t.sec ∧ (markFirst t pos s).qd = t.qd := by
  unfold markFirst; split <;> exact ⟨rfl, rfl⟩

theorem backFill_sec (t : Tracker) (pos : Nat) : ∀ p, (backFill t pos p).sec = t.sec ∧ (backFill t pos p).qd = t.qd
  | 0 => ⟨rfl, rfl⟩
  | p + 1 => by
    unfold backFill
    split
    · have := backFill_sec { t with off := upd t.off p (asU16 pos) } pos p
      exact this
    · exact ⟨rfl, rfl⟩

/-- offsets after `markFirst` then back-filling below section 1 -/
theorem offs_s1 (t : Tracker) (pos : Nat) :
    let t' := backFill (markFirst t pos 1) pos 1
    t'.off 1 = (if (t.sec 1).read = 0 ∧ t.off 1 = 0 then asU16 pos else t.off 1) ∧
    t'.off 0 = (if t.off 0 = 0 ∧ (t.sec 0).total = 0 then asU16 pos else t.off 0) ∧
    t'.off 2 = t.off 2 := by
  simp only [backFill, markFirst]
  by_cases c1 : (t.sec 1).read = 0 ∧ t.off 1 = 0 <;> by_cases c0 : t.off 0 = 0 ∧ (t.sec 0).total = 0 <;>
    simp [c1, c0, upd]

theorem nextSection_s1 (L : Lay) (hL : L.WF) (t : Tracker) (h : TInv L t)
    (h0 : (t.sec 0).read = L.tot 0) (hlt : (t.sec 1).read < L.tot 1) :
    TInv L (backFill (markFirst t (L.rOff (idx t)) 1) (L.rOff (idx t)) 1) ∧
      (backFill (markFirst t (L.rOff (idx t)) 1) (L.rOff (idx t)) 1).off 1 ≠ 0 := by
  have hp := hL.rpos (idx t)
  have hu := asU16_id hp.2
  obtain ⟨e1, e0, e2⟩ := offs_s1 t (L.rOff (idx t))
  have hs := (backFill_sec (markFirst t (L.rOff (idx t)) 1) (L.rOff (idx t)) 1)
  have hm := markFirst_sec t (L.rOff (idx t)) 1
  have r2 := h.sh2 hlt
  have t0 := h.t0
  rw [hu] at e1 e0
  have key1 : (t.sec 1).read = 0 → L.rOff (idx t) = L.secOff 1 := by
    intro hr; simp only [Lay.secOff, Lay.start_one, idx]; congr 1; omega
  have key0 : (t.sec 1).read = 0 → L.tot 0 = 0 → L.rOff (idx t) = L.secOff 0 := by
    intro hr ht; simp only [Lay.secOff, Lay.start_zero, idx]; congr 1; omega
  have n1 : (backFill (markFirst t (L.rOff (idx t)) 1) (L.rOff (idx t)) 1).off 1 ≠ 0 := by
    rw [e1]
    by_cases c1 : (t.sec 1).read = 0 ∧ t.off 1 = 0
    · simp only [c1, and_self, if_true]; omega
    · simp only [c1, if_false]
      by_cases hr : (t.sec 1).read = 0
      · simp [hr] at c1; exact c1
      · exact h.k1 (by omega)
  refine ⟨TInv.learn L hL h (hs.1.trans hm.1) (hs.2.trans hm.2) ?_ ?_ (Or.inl e2) ?_ ?_ ?_ ?_, n1⟩
  · rw [e0]; by_cases c0 : t.off 0 = 0 ∧ (t.sec 0).total = 0
    · simp only [c0, and_self, if_true]
      right
      refine ⟨trivial, key0 ?_ (by omega)⟩
      by_cases hr : (t.sec 1).read = 0
      · exact hr
      · exact absurd c0.1 (h.d1 (h.k1 (by omega)))
    · simp only [c0, if_false]; left; trivial
  · rw [e1]; by_cases c1 : (t.sec 1).read = 0 ∧ t.off 1 = 0
    · simp only [c1, and_self, if_true]; right; exact ⟨trivial, key1 c1.1⟩
    · simp only [c1, if_false]; left; trivial
  · intro _; rw [e0]
    by_cases c0 : t.off 0 = 0 ∧ (t.sec 0).total = 0
    · simp only [c0, and_self, if_true]; omega
    · simp only [c0, if_false]
      by_cases hz : t.off 0 = 0
      · have : (t.sec 0).read > 0 := by
          have : (t.sec 0).total ≠ 0 := fun hx => c0 ⟨hz, hx⟩
          omega
        exact absurd hz (h.k0 this)
      · exact hz
  · rw [e2, e1]; intro hx
    have := h.d2 hx
    by_cases c1 : (t.sec 1).read = 0 ∧ t.off 1 = 0
    · exact absurd c1.2 this
    · simp only [c1, if_false]; exact this
  · intro _ _; exact n1
  · intro _ hz; omega

theorem offs_s2 (t : Tracker) (pos : Nat) :
    let t' := backFill (markFirst t pos 2) pos 2
    t'.off 2 = (if (t.sec 2).read = 0 ∧ t.off 2 = 0 then asU16 pos else t.off 2) ∧
    t'.off 1 = (if t.off 1 = 0 ∧ (t.sec 1).total = 0 then asU16 pos else t.off 1) ∧
    t'.off 0 = (if (t.off 1 = 0 ∧ (t.sec 1).total = 0) ∧ (t.off 0 = 0 ∧ (t.sec 0).total = 0) then asU16 pos
                else t.off 0) := by
  simp only [backFill, markFirst]
  by_cases c2 : (t.sec 2).read = 0 ∧ t.off 2 = 0 <;> by_cases c1 : t.off 1 = 0 ∧ (t.sec 1).total = 0 <;>
    by_cases c0 : t.off 0 = 0 ∧ (t.sec 0).total = 0 <;> simp [c2, c1, c0, upd]

theorem nextSection_s2 (L : Lay) (hL : L.WF) (t : Tracker) (h : TInv L t)
    (h0 : (t.sec 0).read = L.tot 0) (h1 : (t.sec 1).read = L.tot 1) (hlt : (t.sec 2).read < L.tot 2) :
    TInv L (backFill (markFirst t (L.rOff (idx t)) 2) (L.rOff (idx t)) 2) ∧
      (backFill (markFirst t (L.rOff (idx t)) 2) (L.rOff (idx t)) 2).off 2 ≠ 0 := by
  have hp := hL.rpos (idx t)
  have hu := asU16_id hp.2
  obtain ⟨e2, e1, e0⟩ := offs_s2 t (L.rOff (idx t))
  have hs := (backFill_sec (markFirst t (L.rOff (idx t)) 2) (L.rOff (idx t)) 2)
  have hm := markFirst_sec t (L.rOff (idx t)) 2
  have t0 := h.t0
  have t1 := h.t1
  rw [hu] at e2 e1 e0
  have key2 : (t.sec 2).read = 0 → L.rOff (idx t) = L.secOff 2 := by
    intro hr; simp only [Lay.secOff, Lay.start_two, idx]; congr 1; omega
  have key1 : (t.sec 2).read = 0 → L.tot 1 = 0 → L.rOff (idx t) = L.secOff 1 := by
    intro hr ht; simp only [Lay.secOff, Lay.start_one, idx]; congr 1; omega
  have key0 : (t.sec 2).read = 0 → L.tot 1 = 0 → L.tot 0 = 0 → L.rOff (idx t) = L.secOff 0 := by
    intro hr ht ht0; simp only [Lay.secOff, Lay.start_zero, idx]; congr 1; omega
  -- mid-section: everything below is known already
  have mid : (t.sec 2).read ≠ 0 → t.off 1 ≠ 0 := fun hr => h.d2 (h.k2 (by omega))
  have n1 : (backFill (markFirst t (L.rOff (idx t)) 2) (L.rOff (idx t)) 2).off 1 ≠ 0 := by
    rw [e1]
    by_cases c : t.off 1 = 0 ∧ (t.sec 1).total = 0
    · simp only [c, and_self, if_true]; omega
    · simp only [c, if_false]
      intro hz
      have r1 : (t.sec 1).read = 0 := by
        by_cases hx : (t.sec 1).read = 0
        · exact hx
        · exact absurd hz (h.k1 (by omega))
      exact c ⟨hz, by omega⟩
  have n2 : (backFill (markFirst t (L.rOff (idx t)) 2) (L.rOff (idx t)) 2).off 2 ≠ 0 := by
    rw [e2]
    by_cases c : (t.sec 2).read = 0 ∧ t.off 2 = 0
    · simp only [c, and_self, if_true]; omega
    · simp only [c, if_false]
      by_cases hr : (t.sec 2).read = 0
      · simp [hr] at c; exact c
      · exact h.k2 (by omega)
  refine ⟨TInv.learn L hL h (hs.1.trans hm.1) (hs.2.trans hm.2) ?_ ?_ ?_ ?_ ?_ ?_ ?_, n2⟩
  · rw [e0]; by_cases c : (t.off 1 = 0 ∧ (t.sec 1).total = 0) ∧ (t.off 0 = 0 ∧ (t.sec 0).total = 0)
    · simp only [c, and_self, if_true]
      right
      have hr : (t.sec 2).read = 0 := by
        by_cases hr : (t.sec 2).read = 0
        · exact hr
        · exact absurd c.1.1 (mid hr)
      exact ⟨trivial, key0 hr (by omega) (by omega)⟩
    · simp only [c, if_false]; left; trivial
  · rw [e1]; by_cases c : t.off 1 = 0 ∧ (t.sec 1).total = 0
    · simp only [c, and_self, if_true]
      right
      have hr : (t.sec 2).read = 0 := by
        by_cases hr : (t.sec 2).read = 0
        · exact hr
        · exact absurd c.1 (mid hr)
      exact ⟨trivial, key1 hr (by omega)⟩
    · simp only [c, if_false]; left; trivial
  · rw [e2]; by_cases c : (t.sec 2).read = 0 ∧ t.off 2 = 0
    · simp only [c, and_self, if_true]; right; exact ⟨trivial, key2 c.1⟩
    · simp only [c, if_false]; left; trivial
  · intro _; rw [e0]
    by_cases c : (t.off 1 = 0 ∧ (t.sec 1).total = 0) ∧ (t.off 0 = 0 ∧ (t.sec 0).total = 0)
    · simp only [c, and_self, if_true]; omega
    · simp only [c, if_false]
      intro hz
      have z1 : t.off 1 = 0 := by
        by_cases hx : t.off 1 = 0
        · exact hx
        · exact absurd hz (h.d1 hx)
      have r0 : (t.sec 0).read = 0 := by
        by_cases hx : (t.sec 0).read = 0
        · exact hx
        · exact absurd hz (h.k0 (by omega))
      have r1 : (t.sec 1).read = 0 := by
        by_cases hx : (t.sec 1).read = 0
        · exact hx
        · exact absurd z1 (h.k1 (by omega))
      exact c ⟨⟨z1, by omega⟩, ⟨hz, by omega⟩⟩
  · intro _; exact n1
  · intro _ _; exact n1
  · intro _ _; exact n2

theorem nextSection_s0 (L : Lay) (hL : L.WF) (t : Tracker) (h : TInv L t) (hlt : (t.sec 0).read < L.tot 0) :
    TInv L (markFirst t (L.rOff (idx t)) 0) ∧ (markFirst t (L.rOff (idx t)) 0).off 0 ≠ 0 := by
  have hp := hL.rpos (idx t)
  have hu := asU16_id hp.2
  have hm := markFirst_sec t (L.rOff (idx t)) 0
  have hsh := h.sh1 hlt
  have key0 : (t.sec 0).read = 0 → L.rOff (idx t) = L.secOff 0 := by
    intro hr; simp only [Lay.secOff, Lay.start_zero, idx]; congr 1; omega
  by_cases c : (t.sec 0).read = 0 ∧ t.off 0 = 0
  · have e : markFirst t (L.rOff (idx t)) 0 = { t with off := upd t.off 0 (L.rOff (idx t)) } := by
      simp [markFirst, c, hu]
    have z1 : t.off 1 = 0 := by
      by_cases hx : t.off 1 = 0
      · exact hx
      · exact absurd c.2 (h.d1 hx)
    have z2 : t.off 2 = 0 := by
      by_cases hx : t.off 2 = 0
      · exact hx
      · exact absurd z1 (h.d2 hx)
    rw [e]
    refine ⟨TInv.learn L hL h rfl rfl ?_ ?_ ?_ ?_ ?_ ?_ ?_, ?_⟩
    · right; exact ⟨c.2, by simp [upd, key0 c.1]⟩
    · left; simp [upd]
    · left; simp [upd]
    · intro _; simp [upd]; omega
    · simp [upd, z2]
    · intro _ hz; omega
    · simp [upd, z1]
    · simp [upd]; omega
  · have e : markFirst t (L.rOff (idx t)) 0 = t := by simp [markFirst, c]
    rw [e]
    refine ⟨h, ?_⟩
    by_cases hr : (t.sec 0).read = 0
    · simp [hr] at c; exact c
    · exact h.k0 (by omega)

theorem fwdFill_sec (t : Tracker) (pos : Nat) : ∀ fuel n, (fwdFill t pos n fuel).sec = t.sec ∧ (fwdFill t pos n fuel).qd = t.qd
  | 0, _ => ⟨rfl, rfl⟩
  | fuel + 1, n => by
    unfold fwdFill
    split
    · split
      · simp only
        split
        · exact ⟨rfl, rfl⟩
        · exact fwdFill_sec { t with off := upd t.off n (asU16 pos) } pos fuel (n + 1)
      · exact ⟨rfl, rfl⟩
    · exact ⟨rfl, rfl⟩

/-- offsets after forward-filling from section 0 / 1 / 2 -/
theorem offs_f0 (t : Tracker) (pos : Nat) :
    let t' := fwdFill t pos 0 3
    t'.off 0 = (if t.off 0 = 0 then asU16 pos else t.off 0) ∧
    t'.off 1 = (if (t.off 0 = 0 ∧ (t.sec 0).total = 0) ∧ t.off 1 = 0 then asU16 pos else t.off 1) ∧
    t'.off 2 = (if ((t.off 0 = 0 ∧ (t.sec 0).total = 0) ∧ (t.off 1 = 0 ∧ (t.sec 1).total = 0)) ∧ t.off 2 = 0
                then asU16 pos else t.off 2) := by
  simp only [fwdFill]
  by_cases c0 : t.off 0 = 0 <;> by_cases z0 : (t.sec 0).total = 0 <;> by_cases c1 : t.off 1 = 0 <;>
    by_cases z1 : (t.sec 1).total = 0 <;> by_cases c2 : t.off 2 = 0 <;> simp [c0, z0, c1, z1, c2, upd]

theorem offs_f1 (t : Tracker) (pos : Nat) :
    let t' := fwdFill t pos 1 3
    t'.off 0 = t.off 0 ∧
    t'.off 1 = (if t.off 1 = 0 then asU16 pos else t.off 1) ∧
    t'.off 2 = (if (t.off 1 = 0 ∧ (t.sec 1).total = 0) ∧ t.off 2 = 0 then asU16 pos else t.off 2) := by
  simp only [fwdFill]
  by_cases c1 : t.off 1 = 0 <;> by_cases z1 : (t.sec 1).total = 0 <;> by_cases c2 : t.off 2 = 0 <;>
    simp [c1, z1, c2, upd]

theorem offs_f2 (t : Tracker) (pos : Nat) :
    let t' := fwdFill t pos 2 3
    t'.off 0 = t.off 0 ∧ t'.off 1 = t.off 1 ∧
    t'.off 2 = (if t.off 2 = 0 then asU16 pos else t.off 2) := by
  simp only [fwdFill]
  by_cases c2 : t.off 2 = 0 <;> by_cases z2 : (t.sec 2).total = 0 <;> simp [c2, z2, upd]

theorem fwdFill_3 (t : Tracker) (pos fuel : Nat) : fwdFill t pos 3 fuel = t := by
  cases fuel <;> simp [fwdFill]

/-- `counts.read += 1` for section `s` -/
def bump (t : Tracker) (s : Nat) : Tracker :=
  { t with sec := upd t.sec s { (t.sec s) with read := (t.sec s).read + 1 } }

@[simp] theorem bump_off (t : Tracker) (s : Nat) : (bump t s).off = t.off := rfl
@[simp] theorem bump_qd (t : Tracker) (s : Nat) : (bump t s).qd = t.qd := rfl

/-- counting one more record of section `s` (the section of the current index) keeps the invariant -/
theorem TInv.advance0 (L : Lay) {t : Tracker} (h : TInv L t) (hlt : (t.sec 0).read < L.tot 0) (hk : t.off 0 ≠ 0) :
    TInv L (bump t 0) := by
  have hsh := h.sh1 hlt
  constructor <;> simp [bump, upd]
  · exact h.tq
  · exact h.t0
  · exact h.t1
  · exact h.t2
  · omega
  · exact h.le1
  · exact h.le2
  · intro _; exact hsh
  · exact h.sh2
  · exact h.o0
  · exact h.o1
  · exact h.o2
  · exact hk
  · exact h.k1
  · exact h.k2
  · exact h.d1
  · exact h.d2
  · exact h.u0
  · exact h.u1

theorem TInv.advance1 (L : Lay) {t : Tracker} (h : TInv L t) (h0 : (t.sec 0).read = L.tot 0)
    (hlt : (t.sec 1).read < L.tot 1) (hk : t.off 1 ≠ 0) : TInv L (bump t 1) := by
  have hsh := h.sh2 hlt
  constructor <;> simp [bump, upd]
  · exact h.tq
  · exact h.t0
  · exact h.t1
  · exact h.t2
  · exact h.le0
  · omega
  · exact h.le2
  · omega
  · intro _; exact hsh
  · exact h.o0
  · exact h.o1
  · exact h.o2
  · exact h.k0
  · exact hk
  · exact h.k2
  · exact h.d1
  · exact h.d2
  · exact h.u0
  · exact h.u1

theorem TInv.advance2 (L : Lay) {t : Tracker} (h : TInv L t) (h0 : (t.sec 0).read = L.tot 0)
    (h1 : (t.sec 1).read = L.tot 1) (hlt : (t.sec 2).read < L.tot 2) (hk : t.off 2 ≠ 0) : TInv L (bump t 2) := by
  constructor <;> simp [bump, upd]
  · exact h.tq
  · exact h.t0
  · exact h.t1
  · exact h.t2
  · exact h.le0
  · exact h.le1
  · omega
  · omega
  · omega
  · exact h.o0
  · exact h.o1
  · exact h.o2
  · exact h.k0
  · exact h.k1
  · exact hk
  · exact h.d1
  · exact h.d2
  · exact h.u0
  · exact h.u1

theorem sectionRead_eq (t : Tracker) (s pos : Nat) (h : (t.sec s).read + 1 ≤ 65535) :
    t.sectionRead s pos = .ok (
      if (t.sec s).total = (t.sec s).read + 1 then fwdFill (bump t s) pos (s + 1) 3 else bump t s) := by
  unfold Tracker.sectionRead bump
  have : ¬ (t.sec s).read + 1 > 65535 := by omega
  simp only [this, if_false]
  split <;> rfl

theorem idx_bump (t : Tracker) (s : Nat) (hs : s < 3) : idx (bump t s) = idx t + 1 := by
  have : s = 0 ∨ s = 1 ∨ s = 2 := by omega
  rcases this with rfl | rfl | rfl <;> simp [idx, bump, upd] <;> omega

theorem idx_congr {t t' : Tracker} (h : t'.sec = t.sec) : idx t' = idx t := by simp [idx, h]

theorem bump_total (t : Tracker) (s j : Nat) : ((bump t s).sec j).total = (t.sec j).total := by
  unfold bump upd; simp only; split
  · rename_i h; subst h; rfl
  · rfl

/-- finishing a record of section 0 -/
theorem sectionRead_s0 (L : Lay) (hL : L.WF) (hT : L.tot 0 ≤ 65535) (t : Tracker) (h : TInv L t)
    (hlt : (t.sec 0).read < L.tot 0) (hk : t.off 0 ≠ 0) :
    ∃ t', t.sectionRead 0 (L.rOff (idx t + 1)) = .ok t' ∧ TInv L t' ∧ idx t' = idx t + 1 ∧ t'.qd = t.qd ∧
      ((t.sec 0).read + 1 = L.tot 0 → t'.off 1 ≠ 0 ∧ (L.tot 1 = 0 → t'.off 2 ≠ 0)) := by
  have hp := hL.rpos (idx t + 1)
  have hu := asU16_id hp.2
  have hsh := h.sh1 hlt
  have ha := TInv.advance0 L h hlt hk
  rw [sectionRead_eq t 0 _ (by omega)]
  by_cases hc : (t.sec 0).total = (t.sec 0).read + 1
  · rw [if_pos hc]
    refine ⟨_, rfl, ?_⟩
    have hsec := fwdFill_sec (bump t 0) (L.rOff (idx t + 1)) 3 1
    obtain ⟨e0, e1, e2⟩ := offs_f1 (bump t 0) (L.rOff (idx t + 1))
    rw [hu] at e1 e2
    simp only [bump_off, bump_total] at e0 e1 e2
    have ht0 := h.t0
    have ht1 := h.t1
    have key1 : L.rOff (idx t + 1) = L.secOff 1 := by
      simp only [Lay.secOff, Lay.start_one, idx]; congr 1; omega
    have key2 : L.tot 1 = 0 → L.rOff (idx t + 1) = L.secOff 2 := by
      intro hz; simp only [Lay.secOff, Lay.start_two, idx]; congr 1; omega
    have n1 : (fwdFill (bump t 0) (L.rOff (idx t + 1)) 1 3).off 1 ≠ 0 := by
      rw [e1]; by_cases c : t.off 1 = 0
      · simp only [c, if_true]; omega
      · simp only [c, if_false]; exact c
    have n2 : L.tot 1 = 0 → (fwdFill (bump t 0) (L.rOff (idx t + 1)) 1 3).off 2 ≠ 0 := by
      intro hz; rw [e2]
      by_cases c : (t.off 1 = 0 ∧ (t.sec 1).total = 0) ∧ t.off 2 = 0
      · simp only [c, and_self, if_true]; omega
      · simp only [c, if_false]
        intro h2
        by_cases c1 : t.off 1 = 0
        · exact c ⟨⟨c1, by omega⟩, h2⟩
        · exact h.u1 c1 hz h2
    refine ⟨TInv.learn L hL ha hsec.1 hsec.2 (Or.inl e0) ?_ ?_ ?_ ?_ ?_ ?_, ?_, hsec.2, ?_⟩
    · rw [e1]; by_cases c : t.off 1 = 0
      · simp only [c, if_true]; right; exact ⟨c, key1⟩
      · simp only [c, if_false]; left; trivial
    · rw [e2]; by_cases c : (t.off 1 = 0 ∧ (t.sec 1).total = 0) ∧ t.off 2 = 0
      · simp only [c, and_self, if_true]; right; exact ⟨c.2, key2 (by omega)⟩
      · simp only [c, if_false]; left; trivial
    · intro _; rw [e0]; exact hk
    · intro _; exact n1
    · intro _ hz; omega
    · intro _ hz; exact n2 hz
    · rw [idx_congr hsec.1]; exact idx_bump t 0 (by omega)
    · intro _; exact ⟨n1, n2⟩
  · rw [if_neg hc]
    refine ⟨_, rfl, ha, idx_bump t 0 (by omega), rfl, ?_⟩
    intro hx; rw [h.t0] at hc; omega



/-- finishing a record of section 1 -/
theorem sectionRead_s1 (L : Lay) (hL : L.WF) (t : Tracker) (h : TInv L t)
    (h0 : (t.sec 0).read = L.tot 0) (hlt : (t.sec 1).read < L.tot 1) (hk : t.off 1 ≠ 0) :
    ∃ t', t.sectionRead 1 (L.rOff (idx t + 1)) = .ok t' ∧ TInv L t' ∧ idx t' = idx t + 1 ∧ t'.qd = t.qd ∧
      ((t.sec 1).read + 1 = L.tot 1 → t'.off 2 ≠ 0) := by
  have hp := hL.rpos (idx t + 1)
  have hu := asU16_id hp.2
  have hsh := h.sh2 hlt
  have hT := hL.tle 1
  have ha := TInv.advance1 L h h0 hlt hk
  rw [sectionRead_eq t 1 _ (by omega)]
  by_cases hc : (t.sec 1).total = (t.sec 1).read + 1
  · rw [if_pos hc]
    refine ⟨_, rfl, ?_⟩
    have hsec := fwdFill_sec (bump t 1) (L.rOff (idx t + 1)) 3 2
    obtain ⟨e0, e1, e2⟩ := offs_f2 (bump t 1) (L.rOff (idx t + 1))
    rw [hu] at e2
    simp only [bump_off] at e0 e1 e2
    have ht1 := h.t1
    have key2 : L.rOff (idx t + 1) = L.secOff 2 := by
      simp only [Lay.secOff, Lay.start_two, idx]; congr 1; omega
    have n2 : (fwdFill (bump t 1) (L.rOff (idx t + 1)) 2 3).off 2 ≠ 0 := by
      rw [e2]; by_cases c : t.off 2 = 0
      · simp only [c, if_true]; omega
      · simp only [c, if_false]; exact c
    refine ⟨TInv.learn L hL ha hsec.1 hsec.2 (Or.inl e0) (Or.inl e1) ?_ ?_ ?_ ?_ ?_, ?_, hsec.2, fun _ => n2⟩
    · rw [e2]; by_cases c : t.off 2 = 0
      · simp only [c, if_true]; right; exact ⟨c, key2⟩
      · simp only [c, if_false]; left; trivial
    · rw [e1, e0]; exact h.d1
    · intro _; rw [e1]; exact hk
    · rw [e0, e1]; exact h.u0
    · intro _ hz; omega
    · rw [idx_congr hsec.1]; exact idx_bump t 1 (by omega)
  · rw [if_neg hc]
    refine ⟨_, rfl, ha, idx_bump t 1 (by omega), rfl, ?_⟩
    intro hx; rw [h.t1] at hc; omega

/-- finishing a record of section 2 -/
theorem sectionRead_s2 (L : Lay) (hL : L.WF) (t : Tracker) (h : TInv L t)
    (h0 : (t.sec 0).read = L.tot 0) (h1 : (t.sec 1).read = L.tot 1) (hlt : (t.sec 2).read < L.tot 2)
    (hk : t.off 2 ≠ 0) (pos : Nat) :
    ∃ t', t.sectionRead 2 pos = .ok t' ∧ TInv L t' ∧ idx t' = idx t + 1 ∧ t'.qd = t.qd := by
  have hT := hL.tle 2
  have ha := TInv.advance2 L h h0 h1 hlt hk
  rw [sectionRead_eq t 2 _ (by omega)]
  refine ⟨bump t 2, ?_, ha, idx_bump t 2 (by omega), rfl⟩
  split
  · rw [fwdFill_3]
  · rfl



/-- `qd.read += 1` -/
def bumpQ (t : Tracker) : Tracker := { t with qd := { t.qd with read := t.qd.read + 1 } }

theorem questionRead_eq (t : Tracker) (pos : Nat) (h : t.qd.read + 1 ≤ 65535) :
    t.questionRead pos = .ok (if t.qd.total = t.qd.read + 1 then fwdFill (bumpQ t) pos 0 3 else bumpQ t) := by
  unfold Tracker.questionRead bumpQ
  have : ¬ t.qd.read + 1 > 65535 := by omega
  simp only [this, if_false]
  split <;> rfl

theorem TInv.bumpQ (L : Lay) {t : Tracker} (h : TInv L t) : TInv L (bumpQ t) := by
  constructor
  · exact h.tq
  · exact h.t0
  · exact h.t1
  · exact h.t2
  · exact h.le0
  · exact h.le1
  · exact h.le2
  · exact h.sh1
  · exact h.sh2
  · exact h.o0
  · exact h.o1
  · exact h.o2
  · exact h.k0
  · exact h.k1
  · exact h.k2
  · exact h.d1
  · exact h.d2
  · exact h.u0
  · exact h.u1

/-- reading a question: the counters of the record sections are untouched; after the LAST question
    the Answer section is known — and the sections behind it as long as they are empty -/
theorem questionRead_spec (L : Lay) (hL : L.WF) (t : Tracker) (h : TInv L t) (hlt : t.qd.read < L.qd) :
    ∃ t', t.questionRead (L.qEnd (t.qd.read + 1)) = .ok t' ∧ TInv L t' ∧ t'.sec = t.sec ∧
      t'.qd.read = t.qd.read + 1 ∧
      (t.qd.read + 1 = L.qd → t'.off 0 ≠ 0 ∧ (L.tot 0 = 0 → t'.off 1 ≠ 0) ∧
        (L.tot 0 = 0 → L.tot 1 = 0 → t'.off 2 ≠ 0)) := by
  have hq := hL.qle
  have ha := TInv.bumpQ L h
  rw [questionRead_eq t _ (by omega)]
  by_cases hc : t.qd.total = t.qd.read + 1
  · rw [if_pos hc]
    have hend : L.qEnd (t.qd.read + 1) = L.rOff 0 := by rw [hL.q0, ← h.tq, hc]
    rw [hend]
    have hp := hL.rpos 0
    have hu := asU16_id hp.2
    refine ⟨_, rfl, ?_⟩
    have hsec := fwdFill_sec (bumpQ t) (L.rOff 0) 3 0
    obtain ⟨e0, e1, e2⟩ := offs_f0 (bumpQ t) (L.rOff 0)
    rw [hu] at e0 e1 e2
    have ht0 := h.t0
    have ht1 := h.t1
    simp only [show (bumpQ t).off = t.off from rfl, show (bumpQ t).sec = t.sec from rfl] at e0 e1 e2
    have key0 : L.rOff 0 = L.secOff 0 := rfl
    have key1 : L.tot 0 = 0 → L.rOff 0 = L.secOff 1 := by
      intro hz; simp only [Lay.secOff, Lay.start_one]; congr 1; omega
    have key2 : L.tot 0 = 0 → L.tot 1 = 0 → L.rOff 0 = L.secOff 2 := by
      intro hz hz1; simp only [Lay.secOff, Lay.start_two]; congr 1; omega
    have n0 : (fwdFill (bumpQ t) (L.rOff 0) 0 3).off 0 ≠ 0 := by
      rw [e0]; by_cases c : t.off 0 = 0
      · simp only [c, if_true]; omega
      · simp only [c, if_false]; exact c
    have n1 : L.tot 0 = 0 → (fwdFill (bumpQ t) (L.rOff 0) 0 3).off 1 ≠ 0 := by
      intro hz; rw [e1]
      by_cases c : (t.off 0 = 0 ∧ (t.sec 0).total = 0) ∧ t.off 1 = 0
      · simp only [c, and_self, if_true]; omega
      · simp only [c, if_false]
        intro h1
        by_cases c0 : t.off 0 = 0
        · exact c ⟨⟨c0, by omega⟩, h1⟩
        · exact h.u0 c0 hz h1
    have n2 : (fwdFill (bumpQ t) (L.rOff 0) 0 3).off 1 ≠ 0 → L.tot 1 = 0 →
        (fwdFill (bumpQ t) (L.rOff 0) 0 3).off 2 ≠ 0 := by
      intro hx hz; rw [e2]
      by_cases c : ((t.off 0 = 0 ∧ (t.sec 0).total = 0) ∧ (t.off 1 = 0 ∧ (t.sec 1).total = 0)) ∧ t.off 2 = 0
      · simp only [c, and_self, if_true]; omega
      · simp only [c, if_false]
        intro h2
        by_cases c1 : t.off 1 = 0
        · by_cases c0 : t.off 0 = 0 ∧ (t.sec 0).total = 0
          · exact c ⟨⟨c0, ⟨c1, by omega⟩⟩, h2⟩
          · rw [e1] at hx
            have : ¬ ((t.off 0 = 0 ∧ (t.sec 0).total = 0) ∧ t.off 1 = 0) := fun hh => c0 hh.1
            simp only [this, if_false] at hx
            exact hx c1
        · exact h.u1 c1 hz h2
    refine ⟨TInv.learn L hL ha hsec.1 hsec.2 ?_ ?_ ?_ ?_ ?_ ?_ ?_, hsec.1, ?_, ?_⟩
    · rw [e0]; by_cases c : t.off 0 = 0
      · simp only [c, if_true]; right; exact ⟨c, key0⟩
      · simp only [c, if_false]; left; trivial
    · rw [e1]; by_cases c : (t.off 0 = 0 ∧ (t.sec 0).total = 0) ∧ t.off 1 = 0
      · simp only [c, and_self, if_true]; right; exact ⟨c.2, key1 (by omega)⟩
      · simp only [c, if_false]; left; trivial
    · rw [e2]; by_cases c : ((t.off 0 = 0 ∧ (t.sec 0).total = 0) ∧ (t.off 1 = 0 ∧ (t.sec 1).total = 0)) ∧ t.off 2 = 0
      · simp only [c, and_self, if_true]; right; exact ⟨c.2, key2 (by omega) (by omega)⟩
      · simp only [c, if_false]; left; trivial
    · intro _; exact n0
    · intro hx
      rw [e2] at hx
      rw [e1]
      by_cases c : ((t.off 0 = 0 ∧ (t.sec 0).total = 0) ∧ (t.off 1 = 0 ∧ (t.sec 1).total = 0)) ∧ t.off 2 = 0
      · have c' : (t.off 0 = 0 ∧ (t.sec 0).total = 0) ∧ t.off 1 = 0 := ⟨c.1.1, c.1.2.1⟩
        simp only [c', and_self, if_true]; omega
      · simp only [c, if_false] at hx
        have o1 := h.d2 hx
        have : ¬ ((t.off 0 = 0 ∧ (t.sec 0).total = 0) ∧ t.off 1 = 0) := fun hh => o1 hh.2
        simp only [this, if_false]; exact o1
    · intro _ hz; exact n1 hz
    · exact n2
    · rw [show (fwdFill (bumpQ t) (L.rOff 0) 0 3).qd = (bumpQ t).qd from hsec.2]; rfl
    · intro _
      exact ⟨n0, n1, fun hz hz1 => n2 (n1 hz) hz1⟩
  · rw [if_neg hc]
    refine ⟨_, rfl, ha, rfl, rfl, ?_⟩
    intro hx; rw [h.tq] at hc; omega



theorem seek_sec (t : Tracker) (s j : Nat) (hj : j < 3) :
    (t.seek s).sec j = if j < s then { (t.sec j) with read := (t.sec j).total } else { (t.sec j) with read := 0 } := by
  simp [Tracker.seek, hj]

/-- seeking to a section whose offset has been learned: index = first record of that section -/
theorem seek_spec (L : Lay) (t : Tracker) (h : TInv L t) (s : Nat) (hs : s < 3) (hk : t.off s ≠ 0) :
    TInv L (t.seek s) ∧ idx (t.seek s) = L.start s ∧ (t.seek s).off = t.off ∧ (t.seek s).qd = t.qd := by
  have e0 := seek_sec t s 0 (by omega)
  have e1 := seek_sec t s 1 (by omega)
  have e2 := seek_sec t s 2 (by omega)
  have ht0 := h.t0; have ht1 := h.t1; have ht2 := h.t2
  have hcase : s = 0 ∨ s = 1 ∨ s = 2 := by omega
  refine ⟨?_, ?_, rfl, rfl⟩
  · rcases hcase with rfl | rfl | rfl
    · simp only [Nat.lt_irrefl, Nat.not_lt_zero, if_false] at e0 e1 e2
      constructor <;> (try simp only [e0, e1, e2, show (t.seek 0).off = t.off from rfl, show (t.seek 0).qd = t.qd from rfl])
      · exact h.tq
      · exact ht0
      · exact ht1
      · exact ht2
      · omega
      · omega
      · omega
      · intro _; exact ⟨trivial, trivial⟩
      · intro _; trivial
      · exact h.o0
      · exact h.o1
      · exact h.o2
      · intro hx; omega
      · intro hx; omega
      · intro hx; omega
      · exact h.d1
      · exact h.d2
      · exact h.u0
      · exact h.u1
    · simp only [Nat.lt_irrefl, Nat.zero_lt_one, Nat.not_lt_zero, if_true, if_false,
        show ¬ (2 < 1) from by omega] at e0 e1 e2
      constructor <;> (try simp only [e0, e1, e2, show (t.seek 1).off = t.off from rfl, show (t.seek 1).qd = t.qd from rfl])
      · exact h.tq
      · exact ht0
      · exact ht1
      · exact ht2
      · omega
      · omega
      · omega
      · intro hx; omega
      · intro _; trivial
      · exact h.o0
      · exact h.o1
      · exact h.o2
      · intro _; exact h.d1 hk
      · intro hx; omega
      · intro hx; omega
      · exact h.d1
      · exact h.d2
      · exact h.u0
      · exact h.u1
    · simp only [Nat.lt_irrefl, show (0 < 2) from by omega, show (1 < 2) from by omega, if_true, if_false] at e0 e1 e2
      constructor <;> (try simp only [e0, e1, e2, show (t.seek 2).off = t.off from rfl, show (t.seek 2).qd = t.qd from rfl])
      · exact h.tq
      · exact ht0
      · exact ht1
      · exact ht2
      · omega
      · omega
      · omega
      · intro hx; omega
      · intro hx; omega
      · exact h.o0
      · exact h.o1
      · exact h.o2
      · intro _; exact h.d1 (h.d2 hk)
      · intro _; exact h.d2 hk
      · intro hx; omega
      · exact h.d1
      · exact h.d2
      · exact h.u0
      · exact h.u1
  · rcases hcase with rfl | rfl | rfl
    · simp only [Nat.lt_irrefl, Nat.not_lt_zero, if_false] at e0 e1 e2
      simp [idx, e0, e1, e2]
    · simp only [Nat.lt_irrefl, Nat.zero_lt_one, Nat.not_lt_zero, if_true, if_false,
        show ¬ (2 < 1) from by omega] at e0 e1 e2
      simp [idx, e0, e1, e2, ht0]
    · simp only [Nat.lt_irrefl, show (0 < 2) from by omega, show (1 < 2) from by omega, if_true, if_false] at e0 e1 e2
      simp [idx, e0, e1, e2, ht0, ht1]




theorem markFirst_mono (t : Tracker) (pos s j : Nat) (h : t.off j ≠ 0) : (markFirst t pos s).off j ≠ 0 := by
  unfold markFirst
  split
  · rename_i c
    simp only [upd]
    split
    · rename_i e; subst e; exact absurd c.2 h
    · exact h
  · exact h

theorem backFill_mono (t : Tracker) (pos : Nat) : ∀ p j, t.off j ≠ 0 → (backFill t pos p).off j ≠ 0
  | 0, _, h => h
  | p + 1, j, h => by
    unfold backFill
    split
    · rename_i c
      apply backFill_mono
      simp only [upd]
      split
      · rename_i e; subst e; exact absurd c.1 h
      · exact h
    · exact h

theorem fwdFill_mono (t : Tracker) (pos : Nat) : ∀ fuel n j, t.off j ≠ 0 → (fwdFill t pos n fuel).off j ≠ 0
  | 0, _, _, h => h
  | fuel + 1, n, j, h => by
    unfold fwdFill
    split
    · split
      · rename_i c
        have h' : (upd t.off n (asU16 pos)) j ≠ 0 := by
          simp only [upd]
          split
          · rename_i e; subst e; exact absurd c h
          · exact h
        simp only
        split
        · exact h'
        · exact fwdFill_mono { t with off := upd t.off n (asU16 pos) } pos fuel (n + 1) j h'
      · exact h
    · exact h

/-- `s` is the section the current index lies in: everything before it is exhausted, it is not -/
def SecOf (L : Lay) (t : Tracker) (s : Nat) : Prop :=
  s < 3 ∧ (∀ j, j < s → (t.sec j).read = L.tot j) ∧ (t.sec s).read < L.tot s

theorem SecOf.bounds {L : Lay} {t : Tracker} (h : TInv L t) {s : Nat} (hs : SecOf L t s) :
    L.start s ≤ idx t ∧ idx t < L.start s + L.tot s := by
  obtain ⟨h3, hb, hl⟩ := hs
  have : s = 0 ∨ s = 1 ∨ s = 2 := by omega
  rcases this with rfl | rfl | rfl
  · have := h.sh1 hl
    simp only [Lay.start_zero, idx]; omega
  · have e0 := hb 0 (by omega)
    have := h.sh2 hl
    simp only [Lay.start_one, idx]; omega
  · have e0 := hb 0 (by omega)
    have e1 := hb 1 (by omega)
    simp only [Lay.start_two, idx]; omega

/-- **record header.** At the position the linear pass prescribes for the current index, `next_section`
    attributes the record to the section the index lies in (and learns offsets consistently). -/
theorem nextSection_some (L : Lay) (hL : L.WF) (t : Tracker) (h : TInv L t) (hi : idx t < L.n) :
    ∃ s t', t.nextSection (L.rOff (idx t)) = (some s, t') ∧ SecOf L t s ∧
      t'.sec = t.sec ∧ t'.qd = t.qd ∧ t'.off s ≠ 0 ∧ TInv L t' ∧ (∀ j, t.off j ≠ 0 → t'.off j ≠ 0) := by
  have ht0 := h.t0; have ht1 := h.t1; have ht2 := h.t2
  have l0 := h.le0; have l1 := h.le1; have l2 := h.le2
  by_cases c0 : (t.sec 0).read < L.tot 0
  · have a0 : (t.sec 0).read < (t.sec 0).total := by omega
    obtain ⟨hT, hk⟩ := nextSection_s0 L hL t h c0
    refine ⟨0, _, nextSection_eq0 t _ a0, ⟨by omega, by intro j hj; omega, c0⟩, (markFirst_sec t _ 0).1,
      (markFirst_sec t _ 0).2, hk, hT, fun j hj => markFirst_mono t _ 0 j hj⟩
  · have a0 : ¬ (t.sec 0).read < (t.sec 0).total := by omega
    have e0 : (t.sec 0).read = L.tot 0 := by omega
    by_cases c1 : (t.sec 1).read < L.tot 1
    · have a1 : (t.sec 1).read < (t.sec 1).total := by omega
      obtain ⟨hT, hk⟩ := nextSection_s1 L hL t h e0 c1
      have hs := backFill_sec (markFirst t (L.rOff (idx t)) 1) (L.rOff (idx t)) 1
      have hm := markFirst_sec t (L.rOff (idx t)) 1
      refine ⟨1, _, nextSection_eq1 t _ a0 a1, ⟨by omega, ?_, c1⟩, hs.1.trans hm.1, hs.2.trans hm.2, hk, hT,
        fun j hj => backFill_mono _ _ 1 j (markFirst_mono t _ 1 j hj)⟩
      intro j hj
      have : j = 0 := by omega
      subst this; exact e0
    · have a1 : ¬ (t.sec 1).read < (t.sec 1).total := by omega
      have e1 : (t.sec 1).read = L.tot 1 := by omega
      have c2 : (t.sec 2).read < L.tot 2 := by
        unfold idx Lay.n at hi; omega
      have a2 : (t.sec 2).read < (t.sec 2).total := by omega
      obtain ⟨hT, hk⟩ := nextSection_s2 L hL t h e0 e1 c2
      have hs := backFill_sec (markFirst t (L.rOff (idx t)) 2) (L.rOff (idx t)) 2
      have hm := markFirst_sec t (L.rOff (idx t)) 2
      refine ⟨2, _, nextSection_eq2 t _ a0 a1 a2, ⟨by omega, ?_, c2⟩, hs.1.trans hm.1, hs.2.trans hm.2, hk, hT,
        fun j hj => backFill_mono _ _ 2 j (markFirst_mono t _ 2 j hj)⟩
      intro j hj
      have : j = 0 ∨ j = 1 := by omega
      rcases this with rfl | rfl
      · exact e0
      · exact e1

/-- **record data.** Finishing the record at the current index advances the index by one; when that
    was the last record of its section, every later section that starts right there — the next one,
    and the ones behind it as long as they are empty — is known afterwards. -/
theorem sectionRead_spec (L : Lay) (hL : L.WF) (t : Tracker) (h : TInv L t) (s : Nat) (hs : SecOf L t s)
    (hk : t.off s ≠ 0) :
    ∃ t', t.sectionRead s (L.rOff (idx t + 1)) = .ok t' ∧ TInv L t' ∧ idx t' = idx t + 1 ∧ t'.qd = t.qd ∧
      (∀ j, t.off j ≠ 0 → t'.off j ≠ 0) ∧
      (∀ s', s < s' → s' < 3 → L.start s' = idx t + 1 → t'.off s' ≠ 0) := by
  obtain ⟨h3, hb, hl⟩ := hs
  have hbd := SecOf.bounds h ⟨h3, hb, hl⟩
  have ht0 := h.t0; have ht1 := h.t1; have ht2 := h.t2
  have : s = 0 ∨ s = 1 ∨ s = 2 := by omega
  rcases this with rfl | rfl | rfl
  · obtain ⟨t', he, hT, hi, hq, hkn⟩ := sectionRead_s0 L hL (hL.tle 0) t h hl hk
    have hsh := h.sh1 hl
    refine ⟨t', he, hT, hi, hq, ?_, ?_⟩
    · intro j hj
      rw [sectionRead_eq t 0 _ (by have := hL.tle 0; omega)] at he
      simp only [Res.ok.injEq] at he
      subst he
      split
      · exact fwdFill_mono _ _ 3 1 j hj
      · exact hj
    · intro s' hlo hhi hst
      have : s' = 1 ∨ s' = 2 := by omega
      simp only [Lay.start_zero, Nat.zero_add] at hbd
      rcases this with rfl | rfl
      · simp only [Lay.start_one, idx] at hst
        exact (hkn (by omega)).1
      · simp only [Lay.start_two, idx] at hst
        have hc : (t.sec 0).read + 1 = L.tot 0 := by omega
        exact (hkn hc).2 (by omega)
  · have e0 := hb 0 (by omega)
    obtain ⟨t', he, hT, hi, hq, hkn⟩ := sectionRead_s1 L hL t h e0 hl hk
    have hsh := h.sh2 hl
    refine ⟨t', he, hT, hi, hq, ?_, ?_⟩
    · intro j hj
      rw [sectionRead_eq t 1 _ (by have := hL.tle 1; omega)] at he
      simp only [Res.ok.injEq] at he
      subst he
      split
      · exact fwdFill_mono _ _ 3 2 j hj
      · exact hj
    · intro s' hlo hhi hst
      have : s' = 2 := by omega
      subst this
      simp only [Lay.start_two, idx] at hst
      exact hkn (by omega)
  · have e0 := hb 0 (by omega)
    have e1 := hb 1 (by omega)
    obtain ⟨t', he, hT, hi, hq⟩ := sectionRead_s2 L hL t h e0 e1 hl hk (L.rOff (idx t + 1))
    refine ⟨t', he, hT, hi, hq, ?_, ?_⟩
    · intro j hj
      rw [sectionRead_eq t 2 _ (by have := hL.tle 2; omega)] at he
      simp only [Res.ok.injEq] at he
      subst he
      split
      · rw [fwdFill_3]; exact hj
      · exact hj
    · intro s' hlo hhi; omega


theorem questionRead_mono (t t' : Tracker) (pos : Nat) (h : t.questionRead pos = .ok t') (j : Nat)
    (hj : t.off j ≠ 0) : t'.off j ≠ 0 := by
  unfold Tracker.questionRead at h
  by_cases h1 : t.qd.read + 1 > 65535
  · simp [h1] at h
  · simp only [h1, if_false] at h
    by_cases h2 : t.qd.total = t.qd.read + 1
    · simp only [h2, if_true, Res.ok.injEq] at h
      subst h
      exact fwdFill_mono _ _ 3 0 j hj
    · simp only [h2, if_false, Res.ok.injEq] at h
      subst h
      exact hj

/-- known-ness is downward closed -/
theorem TInv.down {L : Lay} {t : Tracker} (h : TInv L t) {s j : Nat} (hs : s < 3) (hj : j ≤ s) (hk : t.off s ≠ 0) :
    t.off j ≠ 0 := by
  have : s = 0 ∨ s = 1 ∨ s = 2 := by omega
  rcases this with rfl | rfl | rfl
  · have : j = 0 := by omega
    subst this; exact hk
  · have : j = 0 ∨ j = 1 := by omega
    rcases this with rfl | rfl
    · exact h.d1 hk
    · exact hk
  · have : j = 0 ∨ j = 1 ∨ j = 2 := by omega
    rcases this with rfl | rfl | rfl
    · exact h.d1 (h.d2 hk)
    · exact h.d2 hk
    · exact hk

theorem Lay.start_mono (L : Lay) {s s' : Nat} (h : s < s') (h3 : s' < 3) : L.start s + L.tot s ≤ L.start s' := by
  have : (s = 0 ∧ s' = 1) ∨ (s = 0 ∧ s' = 2) ∨ (s = 1 ∧ s' = 2) := by omega
  rcases this with ⟨rfl, rfl⟩ | ⟨rfl, rfl⟩ | ⟨rfl, rfl⟩ <;> simp [Lay.start]

/-- the tracker right after `header()`: nothing read, nothing known -/
theorem TInv.init (L : Lay) (t : Tracker) (hq : t.qd.total = L.qd) (h0 : (t.sec 0).total = L.tot 0)
    (h1 : (t.sec 1).total = L.tot 1) (h2 : (t.sec 2).total = L.tot 2)
    (hr : ∀ j, (t.sec j).read = 0) (ho : ∀ j, t.off j = 0) : TInv L t := by
  constructor <;> simp [hr, ho, hq, h0, h1, h2]

end Rsdns.C09
