/-
  Rsdns.Lemmas.Guards — closed forms of the decision expressions that `tools/extract.py` regenerates from
  the two client sources (`src/clients/std/client_impl.rs`, `templates/async_client_impl.rs`) and from
  `ClientConfig::check`, and the `_def` equations that present the client model in those closed forms.

  Every lemma here is re-checked against what the source says NOW: when a guard in /repo changes (a
  comparison flipped, a conjunct dropped, a cast widened), `Generated.lean` changes with it and the closed
  form — and with it every C11–C16 theorem that goes through a `_def` equation — no longer checks.
-/
import Rsdns.Model.Client
import Rsdns.Lemmas.GuardAttr

namespace Rsdns

open Generated

/-! ### closed forms of the generated guards -/

@[guard_eq] theorem cfg_payload_too_small_eq (p : Nat) : cfg_payload_too_small p = decide (p < DNS_MESSAGE_BUFFER_MIN_LENGTH) := by
  unfold cfg_payload_too_small; guard_closed
@[guard_eq] theorem cfg_payload_exceeds_buffer_eq (p b : Nat) : cfg_payload_exceeds_buffer p b = (decide (b > 0) && decide (p > b)) := by
  unfold cfg_payload_exceeds_buffer; guard_closed

@[guard_eq] theorem std_ups_eq (p b : Nat) : std_ups_field (std_ups p b) = Nat.min p b % 65536 := by
  unfold std_ups_field std_ups; guard_closed
@[guard_eq] theorem async_ups_eq (p b : Nat) : async_ups_field (async_ups p b) = Nat.min p b % 65536 := by
  unfold async_ups_field async_ups; guard_closed

@[guard_eq] theorem std_buf_too_short_eq (b : Nat) : std_buf_too_short b = decide (b < DNS_MESSAGE_BUFFER_MIN_LENGTH) := by
  unfold std_buf_too_short; guard_closed
@[guard_eq] theorem async_buf_too_short_eq (b : Nat) : async_buf_too_short b = decide (b < DNS_MESSAGE_BUFFER_MIN_LENGTH) := by
  unfold async_buf_too_short; guard_closed

@[guard_eq] theorem std_udp_branch_eq (u : Bool) : std_udp_branch u = u := by
  unfold std_udp_branch; guard_closed
@[guard_eq] theorem async_udp_branch_eq (u : Bool) : async_udp_branch u = u := by
  unfold async_udp_branch; guard_closed
@[guard_eq] theorem std_tcp_fallback_eq (tc ok : Bool) : std_tcp_fallback tc ok = (tc && ok) := by
  unfold std_tcp_fallback; guard_closed
@[guard_eq] theorem async_tcp_fallback_eq (tc ok : Bool) : async_tcp_fallback tc ok = (tc && ok) := by
  unfold async_tcp_fallback; guard_closed

@[guard_eq] theorem std_rrset_no_buffer_eq (c : Nat) : std_rrset_no_buffer c = (c == 0) := by
  unfold std_rrset_no_buffer; guard_closed
@[guard_eq] theorem async_rrset_no_buffer_eq (c : Nat) : async_rrset_no_buffer c = (c == 0) := by
  unfold async_rrset_no_buffer; guard_closed
@[guard_eq] theorem std_rrset_bad_class_eq (d : Bool) : std_rrset_bad_class d = !d := by
  unfold std_rrset_bad_class; guard_closed
@[guard_eq] theorem async_rrset_bad_class_eq (d : Bool) : async_rrset_bad_class d = !d := by
  unfold async_rrset_bad_class; guard_closed

@[guard_eq] theorem std_udp_id_reject_eq (a b : Nat) : std_udp_id_reject a b = (a != b) := by
  unfold std_udp_id_reject; guard_closed
@[guard_eq] theorem async_udp_id_reject_eq (a b : Nat) : async_udp_id_reject a b = (a != b) := by
  unfold async_udp_id_reject; guard_closed
@[guard_eq] theorem std_udp_question_match_eq (t c n : Bool) : std_udp_question_match t c n = (t && c && n) := by
  unfold std_udp_question_match; guard_closed
@[guard_eq] theorem async_udp_question_match_eq (t c n : Bool) : async_udp_question_match t c n = (t && c && n) := by
  unfold async_udp_question_match; guard_closed

@[guard_eq] theorem std_tcp_too_big_eq (n b : Nat) : std_tcp_too_big n b = decide (n > b) := by
  unfold std_tcp_too_big; guard_closed
@[guard_eq] theorem async_tcp_too_big_eq (n b : Nat) : async_tcp_too_big n b = decide (n > b) := by
  unfold async_tcp_too_big; guard_closed

/-- `u16::from_be_bytes([b0, b1]) as usize` on two octets is `b0 · 256 + b1` -/
theorem std_tcp_prefix_eq (b0 b1 : Nat) (h0 : b0 < 256) (h1 : b1 < 256) : std_tcp_prefix b0 b1 = b0 * 256 + b1 := by
  unfold std_tcp_prefix
  have hs : b0 <<< 8 = b0 * 256 := by rw [Nat.shiftLeft_eq]
  have hm : (b0 <<< 8) % 65536 = b0 <<< 8 := Nat.mod_eq_of_lt (by rw [hs]; omega)
  rw [hm, ← Nat.shiftLeft_add_eq_or_of_lt (by simpa using h1), hs]

theorem async_tcp_prefix_eq (b0 b1 : Nat) (h0 : b0 < 256) (h1 : b1 < 256) : async_tcp_prefix b0 b1 = b0 * 256 + b1 := by
  unfold async_tcp_prefix
  have hs : b0 <<< 8 = b0 * 256 := by rw [Nat.shiftLeft_eq]
  have hm : (b0 <<< 8) % 65536 = b0 <<< 8 := Nat.mod_eq_of_lt (by rw [hs]; omega)
  rw [hm, ← Nat.shiftLeft_add_eq_or_of_lt (by simpa using h1), hs]

/-! ### the per-client selectors of the model, in closed form (both sources agree) -/

theorem Cfg.bufTooShort_eq (c : Cfg) (b : Nat) : c.bufTooShort b = decide (b < DNS_MESSAGE_BUFFER_MIN_LENGTH) := by
  unfold Cfg.bufTooShort; split <;> simp only [async_buf_too_short_eq, std_buf_too_short_eq]
theorem Cfg.udpBranch_eq (c : Cfg) : c.udpBranch = c.udpFirst := by
  unfold Cfg.udpBranch; split <;> simp only [async_udp_branch_eq, std_udp_branch_eq]
theorem Cfg.tcpFallback_eq (c : Cfg) (tc : Bool) : c.tcpFallback tc = (tc && c.tcpAllowed) := by
  unfold Cfg.tcpFallback; split <;> simp only [async_tcp_fallback_eq, std_tcp_fallback_eq]
theorem Cfg.rrsetNoBuffer_eq (c : Cfg) : c.rrsetNoBuffer = (c.cfgbuf == 0) := by
  unfold Cfg.rrsetNoBuffer; split <;> simp only [async_rrset_no_buffer_eq, std_rrset_no_buffer_eq]
theorem Cfg.rrsetBadClass_eq (c : Cfg) (d : Bool) : c.rrsetBadClass d = !d := by
  unfold Cfg.rrsetBadClass; split <;> simp only [async_rrset_bad_class_eq, std_rrset_bad_class_eq]
theorem Cfg.ups_eq (c : Cfg) (p b : Nat) : c.ups p b = Nat.min p b % 65536 := by
  unfold Cfg.ups; split <;> simp only [async_ups_eq, std_ups_eq]

@[guard_eq] theorem std_lifetime_over_eq (e l : Nat) : std_lifetime_over e l = decide (e ≥ l) := by
  unfold std_lifetime_over; guard_closed
@[guard_eq] theorem std_lifetime_left_eq (e l : Nat) : std_lifetime_left e l = l - e := by
  unfold std_lifetime_left; guard_closed
@[guard_eq] theorem std_attempt_over_eq (e t : Nat) : std_attempt_over e t = decide (e ≥ t) := by
  unfold std_attempt_over; guard_closed
@[guard_eq] theorem std_query_left_eq (e t ll : Nat) : std_query_left e t ll = Nat.min (t - e) ll := by
  unfold std_query_left; guard_closed

end Rsdns
