#!/usr/bin/env python3
"""
tools/run_seed.py <seed-name> <property> [<property>…]
Applies /verif/seeded/<seed-name>/patch.diff to /repo, runs ./check for the given properties,
prints their verdict lines, and ALWAYS restores /repo (git checkout -- . ; removes untracked files the patch added).
"""
import subprocess, sys, os, json, time
ROOT = os.path.dirname(os.path.dirname(os.path.abspath(__file__)))
name = sys.argv[1]
props = sys.argv[2:]
patch = os.path.join(ROOT, "seeded", name, "patch.diff")
assert os.path.exists(patch), patch
st = subprocess.run(["git", "-C", "/repo", "status", "--porcelain"], capture_output=True, text=True).stdout.strip()
assert st == "", "/repo is not clean: " + st
r = subprocess.run(["git", "-C", "/repo", "apply", patch], capture_output=True, text=True)
if r.returncode != 0:
    print("patch does not apply:", r.stderr)
    sys.exit(2)
results = {}
try:
    for p in props:
        t0 = time.time()
        r = subprocess.run([os.path.join(ROOT, "check"), p], cwd=ROOT, capture_output=True, text=True)
        lines = [l for l in r.stdout.split("\n") if l.startswith(("VIOLATION", "OK", "KNOWN"))]
        results[p] = dict(rc=r.returncode, lines=lines, wall_s=round(time.time() - t0, 1))
        print(p, "rc=%d" % r.returncode, "; ".join(lines)[:300])
        for l in lines:
            if l.startswith("VIOLATION"):
                rp = l.split("replay=")[1].split(" ")[0]
                try:
                    d = json.load(open(os.path.join(ROOT, rp)))
                    f = (d.get("failures") or [{}])[0]
                    print("    link=%s stream=%s why=%s" % (d.get("link"), d.get("stream"), str(f.get("why"))[:160]))
                    print("    req=%s" % str(f.get("request"))[:200])
                    if d.get("broken"):
                        print("    broken=%s" % str(d.get("broken"))[:300])
                except Exception as ex:
                    print("    (replay unreadable: %s)" % ex)
finally:
    subprocess.run(["git", "-C", "/repo", "checkout", "--", "."])
    subprocess.run(["git", "-C", "/repo", "clean", "-fdq", "src", "templates", "tests"])
out = os.path.join(ROOT, "seeded", name, "result.json")
json.dump(results, open(out, "w"), indent=1)
