#!/usr/bin/env python3
"""ad-hoc comparison of client answers (impl vs model) with ID masking; used while developing"""
import sys, re
sys.path.insert(0, '/verif/tools')
import props
req, impl, model = [open(p).read().split("\n") for p in sys.argv[1:4]]
n = 0
shown = 0
for r, a, b in zip(req, impl, model):
    if not r:
        continue
    ca, cb = props.client_canon(a), props.client_canon(b)
    if ca != cb:
        n += 1
        if shown < (int(sys.argv[4]) if len(sys.argv) > 4 else 3):
            shown += 1
            print("REQ  ", r[:600]); print("IMPL ", ca[:500]); print("MODEL", cb[:500]); print()
print("diffs:", n, "of", len([x for x in req if x]))
