#!/usr/bin/env python3
"""Regenerate MANIFEST.json from tools/props.py (single source of truth for the registered checks)."""
import json, os, sys
ROOT = os.path.dirname(os.path.dirname(os.path.abspath(__file__)))
sys.path.insert(0, os.path.join(ROOT, "tools"))
import props

ALL = ["C%02d" % i for i in range(1, 21)]
checks = []
for pid in ALL:
    if pid not in props.PROPS:
        continue
    p = props.PROPS[pid]
    checks.append(dict(
        property_id=pid,
        quick_cmd="./check %s --tier quick" % pid,
        thorough_cmd="./check %s --tier thorough" % pid,
        evidence_file="evidence/%s.json" % pid,
        replay_cmd_template="./check %s --replay {path}" % pid,
        engine="lean4-model+correspondence",
        level_claimed=dict(category=p["level"], text=p["level_text"], design_ref=p.get("design_ref", "DESIGN.md §7 " + pid)),
        level_note=p["level_note"],
        technique=p["technique"],
    ))
na = [dict(property_id=pid, reason=props.NOT_APPLICABLE.get(pid, "no check registered yet for this property (machinery under construction; see DESIGN.md §13)"))
      for pid in ALL if pid not in props.PROPS]
manifest = dict(
    version=1,
    setup_cmd="./setup.sh",
    hooks=dict(
        guard="--cfg rsdns_verif",
        enable="harness/.cargo/config.toml sets rustflags = [\"--cfg\", \"rsdns_verif\"]; the harness crate depends on /repo by path with features net-std,net-tokio,net-async-std,net-smol,socket2",
        baseline_off_cmd="cd /repo && CARGO_TARGET_DIR=/verif/.build/cargo-baseline CARGO_NET_OFFLINE=true cargo test --workspace --no-fail-fast --offline",
        source_commits=props.HOOK_COMMITS,
        add_only=True,
    ),
    engines=[dict(name="lean4-model+correspondence", path="check",
                  serves_properties=[c["property_id"] for c in checks],
                  kind_free_text="Lean 4 theorems about a hand-written executable model (lean/), tied to /repo on every run by a translator for constants/bit-level leaf functions (tools/extract.py) and by differential correspondence streams (harness/ vs the compiled Lean driver)")],
    checks=checks,
    not_applicable=na,
    notes="See DESIGN.md. Known findings / fixed defects: known_findings.json.",
)
with open(os.path.join(ROOT, "MANIFEST.json"), "w") as f:
    json.dump(manifest, f, indent=1)
    f.write("\n")
print("MANIFEST.json: %d checks, %d not_applicable" % (len(checks), len(na)))
