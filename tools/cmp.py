#!/usr/bin/env python3
import sys
req, impl, model = [open(p).read().split("\n") for p in sys.argv[1:4]]
n = 0
for r, a, b in zip(req, impl, model):
    if a != b:
        n += 1
        if n <= int(sys.argv[4]) if len(sys.argv) > 4 else 3:
            print("REQ  ", r[:700]); print("IMPL ", a[:700]); print("MODEL", b[:700]); print()
print("diffs:", n, "of", len(req))
