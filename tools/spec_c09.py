"""
C09 — the specification of `MessageReader` as a state machine over ONE LINEAR PASS of the message.

Input: the ops of a call history, their outputs, and the outputs of one linear pass over the same
message on a fresh reader (`hd`, `qr` x QDCOUNT, (`hr`,`db`) x records, `hr`).  The automaton below
never looks at message bytes: positions are item indices of the linear pass, and what a call must
return is read off the linear pass at the position the specification says the reader is at.

State: nq (questions consumed), idx (records consumed, absolute index in wire order), pending (a
record header was returned and its data not yet consumed), done in {no, yes, maybe}, maxc (the
furthest the reader has ever completely read: questions + records).

Documented seek (reader.rs, `seek`): possible (1) straight after the header, by decoding forward;
(2) once the message "was read up to (and including) the last record of the first non-empty
section preceding the requested one, or any record beyond that".  (2) is `doc_known`.  The check
is one-directional there: where the documentation does not promise success the implementation may
succeed (and must then be positioned correctly) or report RecordsSectionOffsetUnknown.

The judge stops (returns None for the rest) at the first call that is not protocol-conforming:
a record call while questions remain or while a header's data is still unread, a question call
after the questions, a second `hd`.
"""

G1 = ("mk", "hr", "hh", "hi")
G2 = ("sk", "db", "dt", "op")
QOPS = ("q", "qr", "tq", "tqr")


def is_err(x):
    return x.startswith("E:") or x.startswith("!E:")


class Linear:
    def __init__(self, toks):
        self.ok = False
        self.qd = self.n = 0
        self.tot = [0, 0, 0]
        self.q = []       # question entries (strings; an error entry ends the list)
        self.hdr = []     # record header entries
        self.dat = []     # record data entries
        if not toks or not toks[0].startswith("H:"):
            return
        f = toks[0].split(":")
        self.ok = True
        self.head = toks[0]
        self.qd = int(f[3])
        self.tot = [int(f[4]), int(f[5]), int(f[6])]
        self.n = sum(self.tot)
        rest = toks[1:]
        # the harness caps the pass at 64 questions / 64 records
        nq = min(self.qd, 64)
        self.q = rest[:nq]
        rest = rest[nq:]
        nr = min(self.n, 64)
        for i in range(nr):
            self.hdr.append(rest[2 * i] if 2 * i < len(rest) else "E:?")
            self.dat.append(rest[2 * i + 1] if 2 * i + 1 < len(rest) else "E:?")
        self.capped = self.qd > 64 or self.n > 64

    def start(self, s):
        return sum(self.tot[:s])

    def q_ok(self, j):
        return j < len(self.q) and self.q[j].startswith("Q:")

    def rec_ok(self, i):
        return i < len(self.hdr) and self.hdr[i].startswith("M:") and self.dat[i].startswith("B:")


def judge(ops, outs, lin_toks):
    """returns None, or a sentence saying which call contradicts the linear pass"""
    L = Linear(lin_toks)
    if not ops or ops[0] != "hd" or len(outs) < len(ops):
        return None
    if L.ok and getattr(L, "capped", False):
        return None
    # the header
    if not L.ok:
        if not is_err(outs[0]):
            return "call 0 (hd): a header was returned that the linear pass does not produce"
        done = "yes"
    else:
        if outs[0] != L.head:
            return "call 0 (hd): header %s, linear pass %s" % (outs[0], L.head)
        done = "no"
    nq = 0
    idx = 0
    pending = None
    maxc = 0
    # record offsets grow along the pass
    offs = [int(x.split(":")[1]) for x in L.hdr if x.startswith("M:")]
    for a, b in zip(offs, offs[1:]):
        if not a < b:
            return "linear pass: record offsets do not grow (%d then %d)" % (a, b)

    def doc_known(s):
        return maxc >= max(1, L.qd + L.start(s))

    for k in range(1, len(ops)):
        op = ops[k]
        out = outs[k]
        head = op.split(":")[0]
        where = "call %d (%s)" % (k, op)
        if out in ("P", "UB"):
            return where + ": the implementation panicked / ran into undefined behaviour"
        if head == "hd":
            return None
        if head in ("dba", "dta", "nra", "skx", "dbx", "dtx", "opx"):
            if head in ("skx", "dbx", "dtx", "opx"):
                return None
            continue
        moves = head in G1 or head in QOPS or head in ("seek", "sq")
        # counts
        if head in ("cq", "cr", "cs"):
            if done == "yes":
                want = 0
            elif head == "cq":
                want = L.qd - nq
            elif head == "cr":
                want = L.n - idx
            else:
                s = int(op.split(":")[1])
                want = L.tot[s] - min(max(idx - L.start(s), 0), L.tot[s])
            if done == "maybe" and out == "N:0":
                continue
            if out != "N:%d" % want:
                return where + ": reported %s, the linear pass leaves %d" % (out, want)
            continue
        if head in G2:
            if out in ("nomarker",):
                continue
            if pending is None:
                return None
            i = pending
            pending = None
            if out == "notopt":
                return None  # the harness consumed the pairing without a call
            if done == "yes":
                if out != "E:ReaderDone":
                    return where + ": an exhausted reader returned " + out[:60]
                continue
            lin = L.dat[i]
            if is_err(lin):
                if not is_err(out):
                    return where + ": data returned where the linear pass fails: " + out[:60]
                done = "yes"
                continue
            if head == "db":
                if out != lin:
                    return where + ": record %d data %s, linear pass %s" % (i, out[:80], lin[:80])
            elif head == "sk":
                if out != "ok":
                    return where + ": skipping record %d failed (%s), the linear pass reads it" % (i, out[:60])
            else:
                if is_err(out):
                    done = "yes"   # a typed decode may fail (type mismatch, malformed RDATA)
                    continue
            idx = i + 1
            maxc = max(maxc, nq + idx)
            continue
        if not moves:
            return None
        # a moving call ends a pending pair (the harness forgets the marker)
        had_pending = pending is not None
        pending = None
        if done == "yes":
            if out != "E:ReaderDone":
                return where + ": an exhausted reader returned " + out[:60]
            continue
        if head in QOPS:
            if had_pending or idx > 0:
                return None
            if nq >= L.qd:
                return None
            single = head in ("tq", "tqr")
            if single and (L.qd != 1 or nq != 0):
                if not is_err(out):
                    return where + ": returned a question although QDCOUNT is not 1"
                done = "yes"
                continue
            lin = L.q[nq] if nq < len(L.q) else "E:?"
            if is_err(lin):
                if not is_err(out):
                    return where + ": a question returned where the linear pass fails"
                done = "yes"
                continue
            if is_err(out):
                if head in ("qr", "tqr"):
                    return where + ": failed (%s), the linear pass reads %s" % (out[:60], lin[:60])
                done = "yes"      # an owned name may be rejected where a borrowed one is not
                continue
            if out != lin:
                return where + ": question %d is %s, linear pass %s" % (nq, out[:80], lin[:80])
            nq += 1
            maxc = max(maxc, nq + idx)
            continue
        if head == "sq":
            if had_pending or idx > 0 and nq < L.qd:
                return None
            good = all(L.q_ok(j) for j in range(nq, L.qd))
            if good:
                if out != "ok":
                    return where + ": failed (%s), the linear pass reads every question" % out[:60]
                nq = L.qd
                maxc = max(maxc, nq + idx)
            else:
                if not is_err(out):
                    return where + ": succeeded although the linear pass fails in the questions"
                done = "yes"
            continue
        if head in G1:
            if nq < L.qd or had_pending:
                return None
            if done == "maybe" or idx >= L.n:
                if out != "E:ReaderDone":
                    return where + ": returned %s although no record is left" % out[:60]
                done = "maybe"
                continue
            lin = L.hdr[idx]
            if is_err(lin):
                if not is_err(out):
                    return where + ": a record header returned where the linear pass fails"
                done = "yes"
                continue
            if is_err(out):
                if head in ("hr", "mk"):
                    return where + ": failed (%s), the linear pass reads %s" % (out[:60], lin[:60])
                done = "yes"
                continue
            want = lin if head != "mk" else ":".join(lin.split(":")[:8])
            if out != want:
                return where + ": record %d is %s, linear pass %s" % (idx, out[:90], want[:90])
            pending = idx
            continue
        if head == "seek":
            s = int(op.split(":")[1])
            target = L.start(s)
            at12 = nq == 0 and idx == 0 and not had_pending
            if done == "maybe":
                if out == "E:ReaderDone":
                    done = "yes"
                    continue
            if doc_known(s):
                if out != "ok":
                    return where + ": failed (%s) although the section's offset is known: the reader has " \
                        "read %d of the %d items in front of it" % (out[:60], maxc, L.qd + target)
                idx = target
                done = "no"
                continue
            if at12 and done == "no":
                good = all(L.q_ok(j) for j in range(nq, L.qd)) and all(L.rec_ok(i) for i in range(0, target))
                if good:
                    if out != "ok":
                        return where + ": failed (%s) straight after the header" % out[:60]
                    nq = L.qd
                    idx = target
                    maxc = max(maxc, nq + idx)
                else:
                    if not is_err(out) or out.startswith("E:RecordsSectionOffsetUnknown"):
                        return where + ": %s although the linear pass fails before the section" % out[:60]
                    done = "yes"
                continue
            # not promised: both answers are acceptable
            if out == "ok":
                idx = target
                done = "no"
            elif out.startswith("E:RecordsSectionOffsetUnknown"):
                if had_pending:
                    return None   # the reader stays inside a record whose marker the harness dropped
            else:
                done = "yes"
            continue
        return None
    return None


def classify(req, ans):
    """coverage key for the evidence histogram: which seek scenarios and end states the history met"""
    t = req.split(" ")
    if t[0] != "seekhist" or " #L# " not in ans:
        return "seekhist:other"
    ops = t[2:]
    h, lin = ans.split(" #L# ", 1)
    outs = h.split(" ")
    L = Linear(lin.split(" "))
    if not L.ok:
        return "seekhist:no-header"
    shape = "".join("1" if x else "0" for x in [L.qd] + L.tot)
    seeks_ok = sum(1 for o, a in zip(ops, outs) if o.startswith("seek") and a == "ok")
    seeks_unk = sum(1 for o, a in zip(ops, outs) if o.startswith("seek") and a.startswith("E:RecordsSectionOffsetUnknown"))
    err = any(is_err(a) and not a.startswith("E:RecordsSectionOffsetUnknown") and a != "E:ReaderDone" for a in outs)
    return "shape(q,an,ns,ar)=%s seeks_ok=%s unknown=%s decode_error=%d" % (
        shape, min(seeks_ok, 3), min(seeks_unk, 2), 1 if err else 0)


def oracle(req, ans):
    t = req.split(" ")
    if t[0] != "seekhist" or " #L# " not in ans:
        return None
    ops = t[2:]
    h, lin = ans.split(" #L# ", 1)
    return judge(ops, h.split(" "), lin.split(" "))
