#!/usr/bin/env python3
"""
tools/extract.py — the Rust → Lean translator for the *data and leaf expressions* of rsdns.

It reads a fixed list of items from /repo's working tree and writes lean/Rsdns/Generated.lean.
Everything in that file is therefore re-derived from what the code says *now*; the model
(lean/Rsdns/Model/*.lean) and every theorem that mentions a limit, a mask, a bit position or a
table is re-checked against it by `lake build`.

Translated constructs (token level, no guessing):
  * `const NAME: T = <expr>;`  and `static NAME: [u8; N] = [ … ];`
  * single-expression functions: integer literals (dec / 0x / 0b, `_`, type suffixes, b'c'),
    identifiers, `self.field`, `x.0`, parentheses, `& | ^ << >> + - * == != < <= > >= && || !`,
    `as uN` casts, the `get_bit!(e, n)` macro, `.is_ascii_alphanumeric()`, `*x`, `.into()`,
    `u16::from(bool)`, `.min(..)`;
  * struct-literal field initialisers (`Opt::from_msg`), two-armed `match` on an enum (`udp_first`);
  * the field lists of the client structs (for the auto-trait model, C19);
  * allocation-site inventory (for C20).
Integers are translated to `Nat` with explicit wrap-around: an expression of Rust type uN is kept
in [0, 2^N) by `% 2^N` after `<<`, `+`, `*`, and narrowing `as`; `-` is translated only where the
caller asks for checked subtraction (none of the leaf expressions subtract).

If an item cannot be found or parsed, NO definition is emitted for it and the item is listed in
`Generated.missing` — the Lean modules using it stop building, which `check` reports as a broken
obligation `translator:<item>`. The translator never fabricates a value.
"""
import re
import sys
import os
import json

REPO = os.environ.get("RSDNS_REPO", "/repo")
OUT = os.path.join(os.path.dirname(os.path.abspath(__file__)), "..", "lean", "Rsdns", "Generated.lean")

WIDTH = {"u8": 8, "u16": 16, "u32": 32, "u64": 64, "usize": 64, "u128": 128, "bool": 1}


class ParseError(Exception):
    pass


def read(path):
    with open(os.path.join(REPO, path), "r", encoding="utf-8") as f:
        return f.read()


def strip_comments(src):
    src = re.sub(r"/\*.*?\*/", " ", src, flags=re.S)
    src = re.sub(r"//[^\n]*", "", src)
    return src


# ------------------------------------------------------------------------------------------------
# tokenizer / Pratt parser for the expression subset
# ------------------------------------------------------------------------------------------------

TOKEN_RE = re.compile(
    r"""\s*(?:
      (?P<byte>b'(?:\\.|[^\\'])')
    | (?P<num>0b[01_]+|0x[0-9a-fA-F_]+|[0-9][0-9_]*)(?P<suf>u8|u16|u32|u64|u128|usize)?
    | (?P<id>[A-Za-z_][A-Za-z0-9_]*!?)
    | (?P<op><<|>>|==|!=|<=|>=|&&|\|\||::|=>|[-+*/%&|^!<>().,\[\]{}:;=])
    )""",
    re.X,
)


def tokenize(s):
    pos = 0
    out = []
    s = s.strip()
    while pos < len(s):
        m = TOKEN_RE.match(s, pos)
        if not m or m.end() == pos:
            raise ParseError("cannot tokenize at: %r" % s[pos:pos + 30])
        pos = m.end()
        if m.group("byte"):
            body = m.group("byte")[2:-1]
            if body.startswith("\\"):
                esc = {"\\n": 10, "\\r": 13, "\\t": 9, "\\\\": 92, "\\'": 39, "\\0": 0}
                if body not in esc:
                    raise ParseError("byte escape " + body)
                v = esc[body]
            else:
                v = ord(body)
            out.append(("num", v, "u8"))
        elif m.group("num"):
            t = m.group("num").replace("_", "")
            v = int(t, 0)
            out.append(("num", v, m.group("suf")))
        elif m.group("id"):
            out.append(("id", m.group("id"), None))
        else:
            out.append(("op", m.group("op"), None))
    return out


class Expr:
    """Lean text + Rust type ('u8'..'usize', 'bool', or None for an untyped literal)."""

    def __init__(self, lean, ty, lit=None):
        self.lean = lean
        self.ty = ty
        self.lit = lit


BIN_PREC = {
    "*": 10, "/": 10, "%": 10,
    "+": 9, "-": 9,
    "<<": 8, ">>": 8,
    "&": 7, "^": 6, "|": 5,
    "==": 4, "!=": 4, "<": 4, ">": 4, "<=": 4, ">=": 4,
    "&&": 3, "||": 2,
}


class Parser:
    def __init__(self, toks, env, consts):
        self.toks = toks
        self.i = 0
        self.env = env        # name -> (lean_name, type)
        self.consts = consts  # NAME -> type

    def peek(self):
        return self.toks[self.i] if self.i < len(self.toks) else ("eof", None, None)

    def next(self):
        t = self.peek()
        self.i += 1
        return t

    def expect(self, v):
        t = self.next()
        if t[1] != v:
            raise ParseError("expected %r, got %r" % (v, t))

    def unify(self, a, b):
        if a.ty is None and b.ty is None:
            return None
        if a.ty is None:
            return b.ty
        if b.ty is None:
            return a.ty
        if a.ty != b.ty:
            raise ParseError("type mismatch %s vs %s in (%s) (%s)" % (a.ty, b.ty, a.lean, b.lean))
        return a.ty

    def wrap(self, lean, ty):
        if ty is None or ty == "bool":
            return lean
        return "((%s) %% %d)" % (lean, 2 ** WIDTH[ty])

    def parse(self, minp=0):
        lhs = self.unary()
        while True:
            t = self.peek()
            if t[0] == "id" and t[1] == "as":
                # `as` binds tighter than every binary operator
                self.next()
                ty = self.next()[1]
                if ty not in WIDTH:
                    raise ParseError("cast to " + str(ty))
                if lhs.ty == "bool":
                    lhs = Expr("(if %s then 1 else 0)" % lhs.lean, ty)
                elif lhs.ty is None or WIDTH[ty] < WIDTH[lhs.ty]:
                    lhs = Expr("((%s) %% %d)" % (lhs.lean, 2 ** WIDTH[ty]), ty)
                else:
                    lhs = Expr(lhs.lean, ty)
                continue
            if t[0] == "op" and t[1] == ".":
                # method calls on a primary are handled in postfix(); reaching here means `x.0` etc.
                raise ParseError("unexpected '.'")
            if t[0] != "op" or t[1] not in BIN_PREC:
                return lhs
            prec = BIN_PREC[t[1]]
            if prec < minp:
                return lhs
            op = self.next()[1]
            rhs = self.parse(prec + 1)
            lhs = self.binop(op, lhs, rhs)

    def binop(self, op, a, b):
        if op in ("<<", ">>"):
            ty = a.ty if a.ty is not None else b.ty  # `1 << 15` inside get_bit!: typed by context later
            if op == "<<":
                return Expr(self.wrap("(%s) <<< (%s)" % (a.lean, b.lean), ty), a.ty)
            return Expr("((%s) >>> (%s))" % (a.lean, b.lean), a.ty)
        if op in ("&&", "||"):
            if a.ty != "bool" or b.ty != "bool":
                raise ParseError("logical op on non-bool")
            return Expr("(%s %s %s)" % (a.lean, op, b.lean), "bool")
        ty = self.unify(a, b)
        if op == "&":
            return Expr("((%s) &&& (%s))" % (a.lean, b.lean), ty)
        if op == "|":
            return Expr("((%s) ||| (%s))" % (a.lean, b.lean), ty)
        if op == "^":
            return Expr("((%s) ^^^ (%s))" % (a.lean, b.lean), ty)
        if op in ("+", "*"):
            return Expr(self.wrap("(%s) %s (%s)" % (a.lean, op, b.lean), ty), ty)
        if op == "-":
            # Rust panics on underflow (debug) — the guards in front of every extracted subtraction are
            # extracted too, and the model states the no-underflow side condition where it uses one
            return Expr("((%s) - (%s))" % (a.lean, b.lean), ty)
        if op == "==":
            return Expr("((%s) == (%s))" % (a.lean, b.lean), "bool")
        if op == "!=":
            return Expr("((%s) != (%s))" % (a.lean, b.lean), "bool")
        if op in ("<", "<=", ">", ">="):
            lop = {"<": "<", "<=": "≤", ">": ">", ">=": "≥"}[op]
            return Expr("(decide ((%s) %s (%s)))" % (a.lean, lop, b.lean), "bool")
        raise ParseError("operator %s not supported" % op)

    def unary(self):
        t = self.peek()
        if t[0] == "op" and t[1] == "!":
            self.next()
            e = self.unary()
            if e.ty != "bool":
                raise ParseError("bitwise not is not supported")
            return Expr("(!%s)" % e.lean, "bool")
        if t[0] == "op" and t[1] == "*":
            self.next()
            return self.unary()
        return self.postfix(self.primary())

    def primary(self):
        t = self.next()
        if t[0] == "num":
            return Expr(str(t[1]), t[2], lit=t[1])
        if t[0] == "op" and t[1] == "(":
            e = self.parse()
            self.expect(")")
            return Expr("(%s)" % e.lean, e.ty, e.lit)
        if t[0] == "id":
            name = t[1]
            if name == "get_bit!":
                self.expect("(")
                e = self.parse()
                self.expect(",")
                n = self.next()
                if n[0] != "num":
                    raise ParseError("get_bit! literal")
                self.expect(")")
                if e.ty is None:
                    raise ParseError("get_bit! on untyped expr")
                mask = "((1 <<< %d) %% %d)" % (n[1], 2 ** WIDTH[e.ty])
                return Expr("(((%s) &&& %s) != 0)" % (e.lean, mask), "bool")
            if name in ("true", "false"):
                return Expr(name, "bool")
            if name == "u16" and self.peek()[1] == "::":
                self.next()
                f = self.next()[1]
                if f == "MAX":
                    return Expr("65535", "u16", 65535)
                if f == "from":
                    self.expect("(")
                    e = self.parse()
                    self.expect(")")
                    if e.ty == "bool":
                        return Expr("(if %s then 1 else 0)" % e.lean, "u16")
                    return Expr(e.lean, "u16")
                raise ParseError("u16::" + f)
            # path like ProtocolStrategy::NoTcp or Self::RTYPE
            if self.peek()[1] == "::":
                self.next()
                v = self.next()[1]
                key = name + "::" + v
                if key in self.env:
                    return Expr(self.env[key][0], self.env[key][1])
                raise ParseError("unknown path " + key)
            if name == "self" and self.peek()[1] == ".":
                # self.a.b.c → look up the dotted name
                parts = ["self"]
                while self.peek()[1] == "." and self.toks[self.i + 1][0] in ("id", "num") \
                        and not (self.i + 2 < len(self.toks) and self.toks[self.i + 2][1] == "("):
                    self.next()
                    parts.append(str(self.next()[1]))
                key = ".".join(parts)
                if key in self.env:
                    return Expr(self.env[key][0], self.env[key][1])
                raise ParseError("unknown " + key)
            # tuple-struct projection x.0
            if self.peek()[1] == "." and self.i + 1 < len(self.toks) and self.toks[self.i + 1] == ("num", 0, None) \
                    and (name + ".0") in self.env:
                key = name + ".0"
                self.next()
                self.next()
                return Expr(self.env[key][0], self.env[key][1])
            # generic dotted field path `a.b.c` (not a method call) that the environment knows
            if self.peek()[1] == "." and self.i + 1 < len(self.toks) and self.toks[self.i + 1][0] == "id":
                j = self.i
                parts = [name]
                while j + 1 < len(self.toks) and self.toks[j][1] == "." and self.toks[j + 1][0] == "id" \
                        and not (j + 2 < len(self.toks) and self.toks[j + 2][1] == "("):
                    parts.append(self.toks[j + 1][1])
                    j += 2
                key = ".".join(parts)
                if len(parts) > 1 and key in self.env:
                    self.i = j
                    return Expr(self.env[key][0], self.env[key][1])
            if name in self.env:
                return Expr(self.env[name][0], self.env[name][1])
            if name in self.consts:
                return Expr(name, self.consts[name])
            raise ParseError("unknown identifier " + name)
        raise ParseError("unexpected token %r" % (t,))

    def postfix(self, e):
        while self.peek()[1] == "." and self.i + 1 < len(self.toks) and self.toks[self.i + 1][0] == "id":
            meth = self.toks[self.i + 1][1]
            if meth == "is_ascii_alphanumeric":
                self.i += 2
                self.expect("(")
                self.expect(")")
                e = Expr("(isAsciiAlphanumeric (%s))" % e.lean, "bool")
            elif meth == "into":
                self.i += 2
                self.expect("(")
                self.expect(")")
            elif meth == "value":
                self.i += 2
                self.expect("(")
                self.expect(")")
            elif meth == "min":
                self.i += 2
                self.expect("(")
                b = self.parse()
                self.expect(")")
                ty = self.unify(e, b)
                e = Expr("(Nat.min (%s) (%s))" % (e.lean, b.lean), ty)
            elif meth == "saturating_sub":
                self.i += 2
                self.expect("(")
                b = self.parse()
                self.expect(")")
                ty = self.unify(e, b)
                e = Expr("((%s) - (%s))" % (e.lean, b.lean), ty)   # Nat subtraction saturates at 0 as well
            elif meth == "len":
                self.i += 2
                self.expect("(")
                self.expect(")")
                e = Expr("(%s_len)" % e.lean, "usize")
            else:
                raise ParseError("method ." + meth)
        return e


def translate_expr(text, env, consts):
    p = Parser(tokenize(text), env, consts)
    e = p.parse()
    if p.peek()[0] != "eof":
        raise ParseError("trailing tokens in %r at %r" % (text, p.peek()))
    return e


# ------------------------------------------------------------------------------------------------
# item finders
# ------------------------------------------------------------------------------------------------

def find_const(src, name):
    m = re.search(r"\bconst\s+%s\s*:\s*(\w+)\s*=\s*([^;]+);" % re.escape(name), src)
    if not m:
        raise ParseError("const %s not found" % name)
    return m.group(1), m.group(2).strip()


def find_static_table(src, name):
    m = re.search(r"\bstatic\s+%s\s*:\s*\[\s*u8\s*;\s*(\d+)\s*\]\s*=\s*\[([^\]]*)\]\s*;" % re.escape(name), src)
    if not m:
        raise ParseError("static %s not found" % name)
    vals = [int(x.strip().replace("_", ""), 0) for x in m.group(2).split(",") if x.strip()]
    if len(vals) != int(m.group(1)):
        raise ParseError("static %s: %d entries, declared %s" % (name, len(vals), m.group(1)))
    return vals


def matching_brace(src, start):
    """src[start] == '{' → index just after the matching '}'."""
    depth = 0
    i = start
    while i < len(src):
        c = src[i]
        if c == "{":
            depth += 1
        elif c == "}":
            depth -= 1
            if depth == 0:
                return i + 1
        i += 1
    raise ParseError("unbalanced braces")


def find_fn_body(src, name, occurrence=0):
    ms = list(re.finditer(r"\bfn\s+%s\s*(?:<[^>]*>)?\s*\(([^)]*)\)\s*(?:->\s*([^{]+?))?\s*\{" % re.escape(name), src))
    if len(ms) <= occurrence:
        raise ParseError("fn %s not found" % name)
    m = ms[occurrence]
    end = matching_brace(src, m.end() - 1)
    return m.group(1), (m.group(2) or "").strip(), src[m.end():end - 1].strip()


def simple_body_expr(body):
    """Reduce `let bits = E; bits.into()` / `E` / `return E;` to the expression E."""
    body = body.strip()
    m = re.fullmatch(r"let\s+(\w+)\s*=\s*(.+?);\s*\1\.into\(\)", body, flags=re.S)
    if m:
        return m.group(2)
    if ";" in body:
        raise ParseError("body is not a single expression: %r" % body[:80])
    return body


# ------------------------------------------------------------------------------------------------
# generation
# ------------------------------------------------------------------------------------------------

class Gen:
    def __init__(self):
        self.lines = []
        self.missing = []
        self.consts = {}
        self.report = {}

    def emit(self, s=""):
        self.lines.append(s)

    def attempt(self, item, fn, on_fail=None):
        try:
            fn()
            self.report[item] = "ok"
        except (ParseError, OSError, IndexError, KeyError, ValueError) as ex:
            self.missing.append(item)
            self.report[item] = "MISSING: %s" % ex
            self.emit("-- MISSING %s : %s" % (item, str(ex).replace("\n", " ")))
            if on_fail:
                on_fail()

    def const(self, path, name, lean_name=None):
        lean_name = lean_name or name

        def go():
            src = strip_comments(read(path))
            ty, expr = find_const(src, name)
            if ty not in WIDTH:
                raise ParseError("const %s has type %s" % (name, ty))
            e = translate_expr(expr, {}, self.consts)
            self.emit("/-- `%s` : `const %s: %s = %s` -/" % (path, name, ty, expr))
            self.emit("def %s : Nat := %s" % (lean_name, e.lean))
            self.consts[lean_name] = ty
        self.attempt("%s:%s" % (path, name), go)

    def table(self, path, name, lean_name):
        def go():
            src = strip_comments(read(path))
            vals = find_static_table(src, name)
            self.emit("/-- `%s` : `static %s` (%d entries) -/" % (path, name, len(vals)))
            self.emit("def %s : Array Nat := #[%s]" % (lean_name, ", ".join(str(v) for v in vals)))
        self.attempt("%s:%s" % (path, name), go)

    def assoc_consts(self, path, tyname, lean_prefix):
        """`pub const A: Type = Type::new(1);` → def TYPE_A : Nat := 1"""
        def go():
            src = strip_comments(read(path))
            found = re.findall(r"pub\s+const\s+(\w+)\s*:\s*%s\s*=\s*%s::new\(\s*(\d+)\s*\)\s*;" % (tyname, tyname), src)
            if not found:
                raise ParseError("no associated constants of %s" % tyname)
            for n, v in found:
                self.emit("def %s%s : Nat := %s" % (lean_prefix, n, v))
        self.attempt("%s:%s::consts" % (path, tyname), go)

    def guard(self, props, path, fn, pattern, lean_name, params, env, subst=(), ret="Bool", occurrence=0, count=1):
        """An expression INSIDE a function body: `pattern` is a regex with one group that captures the
        expression text; it must match exactly `count` times in the body of `fn`.  `subst` = textual
        rewrites (regex, replacement identifier) applied to the captured text first, for sub-expressions
        that are not integer arithmetic (`question.qname == self.qname` → an opaque Bool parameter).
        The item is tagged with the properties whose theorems pin it."""
        item = "guard[%s] %s:fn %s:%s" % (",".join(props), path, fn, lean_name)

        def go():
            src = strip_comments(read(path))
            if fn.endswith("!"):
                mm = re.search(r"macro_rules!\s+%s\s*\{" % re.escape(fn[:-1]), src)
                if not mm:
                    raise ParseError("macro %s not found" % fn)
                body = src[mm.end():matching_brace(src, mm.end() - 1) - 1]
            else:
                _, _, body = find_fn_body(src, fn, occurrence)
            ms = list(re.finditer(pattern, body, flags=re.S))
            if len(ms) != count:
                raise ParseError("%s: pattern /%s/ matches %d times in fn %s (expected %d)" % (lean_name, pattern, len(ms), fn, count))
            text = ms[0].group(1)
            for m in ms[1:]:
                if " ".join(m.group(1).split()) != " ".join(text.split()):
                    raise ParseError("%s: occurrences differ" % lean_name)
            raw = " ".join(text.split())
            for rx, rep in subst:
                text = re.sub(rx, rep, text, flags=re.S)
            ex = translate_expr(text, env, self.consts)
            lty = "Bool" if ex.ty == "bool" else "Nat"
            if ret and ret != lty:
                raise ParseError("%s: expected %s, got %s" % (lean_name, ret, lty))
            ps = " ".join("(%s : %s)" % (n, t) for n, t in params)
            self.emit("/-- `%s` : in `fn %s` : `%s` -/" % (path, fn, raw))
            self.emit("def %s %s : %s := %s" % (lean_name, ps, lty, ex.lean))
        def placeholder():
            # keeps the rest of the development (and the driver) building; the item is reported as
            # missing, and every closed-form theorem about this guard fails on the placeholder
            ps = " ".join("(%s : %s)" % (n, t) for n, t in params)
            self.emit("/-- PLACEHOLDER: the translator could not read this expression from `%s` -/" % path)
            self.emit("def %s %s : %s := %s" % (lean_name, ps, ret or "Bool", "false" if (ret or "Bool") == "Bool" else "0"))
        self.attempt(item, go, placeholder)

    def func(self, path, name, lean_name, params, env_extra=None, ret=None, occurrence=0, body_filter=None):
        """params: list of (lean_param, rust_names, type). rust_names map to the lean param."""
        def go():
            src = strip_comments(read(path))
            _, rty, body = find_fn_body(src, name, occurrence)
            if body_filter:
                body = body_filter(body)
            expr = simple_body_expr(body)
            env = {}
            for lp, rnames, ty in params:
                for rn in rnames:
                    env[rn] = (lp, ty)
            if env_extra:
                env.update(env_extra)
            e = translate_expr(expr, env, self.consts)
            want = ret
            lty = "Bool" if e.ty == "bool" else "Nat"
            if want and want != lty:
                raise ParseError("%s: expected %s result, got %s" % (name, want, lty))
            ps = " ".join("(%s : Nat)" % lp for lp, _, _ in params)
            self.emit("/-- `%s` : `fn %s` body `%s` -/" % (path, name, " ".join(expr.split())))
            self.emit("def %s %s : %s := %s" % (lean_name, ps, lty, e.lean))
        self.attempt("%s:fn %s" % (path, name), go)


def gen_all():
    g = Gen()
    e = g.emit
    e("/-")
    e("  GENERATED by tools/extract.py from /repo's working tree — do not edit.")
    e("  Every definition below is a token-level translation of the Rust item named in its doc comment.")
    e("-/")
    e("namespace Rsdns.Generated")
    e("")
    e("/-- `u8::is_ascii_alphanumeric` (std): '0'..='9' | 'A'..='Z' | 'a'..='z' -/")
    e("def isAsciiAlphanumeric (b : Nat) : Bool :=")
    e("  (decide (48 ≤ b) && decide (b ≤ 57)) || (decide (65 ≤ b) && decide (b ≤ 90)) || (decide (97 ≤ b) && decide (b ≤ 122))")
    e("")
    C = "src/constants/mod.rs"
    for n in ["DOMAIN_NAME_MAX_LENGTH", "DOMAIN_NAME_LABEL_MAX_LENGTH", "DOMAIN_NAME_MAX_POINTERS",
              "HEADER_LENGTH", "DNS_MESSAGE_MAX_LENGTH", "DNS_MESSAGE_BUFFER_MIN_LENGTH"]:
        g.const(C, n)
    L = "src/message/reader/labels.rs"
    g.const(L, "POINTER_MASK")
    g.const(L, "LENGTH_MASK")
    g.func(L, "is_pointer", "is_pointer", [("b", ["b"], "u8")], ret="Bool")
    g.func(L, "is_length", "is_length", [("b", ["b"], "u8")], ret="Bool")
    g.func(L, "pointer_to_offset", "pointer_to_offset", [("o1", ["o1"], "u8"), ("o2", ["o2"], "u8")], ret="Nat")
    g.const("src/message/reader/message_reader/record_marker.rs", "TYPE_TO_RDATA_OFFSET")
    e("")

    # label character class: the `if !( … )` condition inside check_label_bytes' for loop
    def label_char():
        src = strip_comments(read("src/names/utils.rs"))
        _, _, body = find_fn_body(src, "check_label_bytes")
        m = re.search(r"for\s+b\s+in\s+label\.iter\(\)\s*\{\s*if\s+!\s*\((.*?)\)\s*\{", body, flags=re.S)
        if not m:
            raise ParseError("label character test not found")
        ex = translate_expr(m.group(1), {"b": ("b", "u8")}, g.consts)
        if ex.ty != "bool":
            raise ParseError("label char test is not bool")
        g.emit("/-- `src/names/utils.rs` : character test of `check_label_bytes`: `%s` -/" % " ".join(m.group(1).split()))
        g.emit("def label_char_ok (b : Nat) : Bool := %s" % ex.lean)
        # first / last character tests
        m1 = re.search(r"let\s+fc\s*=\s*label\.get_unchecked\(0\);\s*if\s+(.*?)\s*\{", body, flags=re.S)
        m2 = re.search(r"let\s+lc\s*=\s*label\.get_unchecked\(len\s*-\s*1\);\s*if\s+(.*?)\s*\{", body, flags=re.S)
        if not m1 or not m2:
            raise ParseError("first/last character tests not found")
        e1 = translate_expr(m1.group(1), {"fc": ("b", "u8")}, g.consts)
        e2 = translate_expr(m2.group(1), {"lc": ("b", "u8")}, g.consts)
        g.emit("def label_first_bad (b : Nat) : Bool := %s" % e1.lean)
        g.emit("def label_last_bad (b : Nat) : Bool := %s" % e2.lean)
        m3 = re.search(r"if\s+len\s*>\s*(\w+)\s*\{", body)
        if not m3 or m3.group(1) != "DOMAIN_NAME_LABEL_MAX_LENGTH":
            raise ParseError("label length test not found")
    g.attempt("src/names/utils.rs:label tests", label_char)
    e("")

    # flags getters
    F = "src/message/flags.rs"
    bits = [("bits", ["self.bits"], "u16")]
    for fn, ln in [("message_type", "flags_qr"), ("opcode", "flags_opcode"),
                   ("authoritative_answer", "flags_aa"), ("truncated", "flags_tc"),
                   ("recursion_desired", "flags_rd"), ("recursion_available", "flags_ra"),
                   ("response_code", "flags_rcode")]:
        g.func(F, fn, ln, bits)
    e("")

    # Opt::from_msg, Opt::ttl, RCode::extended
    def opt_from_msg():
        src = strip_comments(read("src/records/opt.rs"))
        _, _, body = find_fn_body(src, "from_msg")
        m = re.fullmatch(r"Opt\s*\{(.*)\}", body.strip(), flags=re.S)
        if not m:
            raise ParseError("Opt::from_msg is not a struct literal")
        env = {"rclass": ("rclass", "u16"), "ttl": ("ttl", "u32")}
        fields = {}
        for part in m.group(1).split(","):
            part = part.strip()
            if not part:
                continue
            k, v = part.split(":", 1)
            fields[k.strip()] = translate_expr(v.strip(), env, g.consts)
        for k in ["udp_payload_size", "rcode_extension", "version", "flags"]:
            if k not in fields:
                raise ParseError("Opt::from_msg lacks field " + k)
            g.emit("/-- `src/records/opt.rs` : `Opt::from_msg` field `%s` -/" % k)
            g.emit("def opt_%s (rclass ttl : Nat) : Nat := %s" % (k, fields[k].lean))
    g.attempt("src/records/opt.rs:fn from_msg", opt_from_msg)
    g.func("src/records/opt.rs", "ttl", "opt_ttl",
           [("rcode_extension", ["self.rcode_extension"], "u8"), ("version", ["self.version"], "u8"),
            ("flags", ["self.flags"], "u16")])
    g.func("src/records/opt.rs", "dnssec_ok", "opt_dnssec_ok", [("flags", ["self.flags"], "u16")])
    g.func("src/message/rcode.rs", "extended", "rcode_extended",
           [("base", ["base.0"], "u16"), ("extension", ["extension"], "u8")],
           body_filter=lambda b: re.sub(r"^RCode\((.*)\)$", r"\1", b.strip(), flags=re.S))
    e("")

    # the length gate of `MessageReader::new`: `if <cond> { return Err(Error::MessageTooLong(..)) }`
    def new_gate(b):
        m = re.search(r"\bif\s+(.*?)\s*\{\s*return\s+Err\(\s*Error::MessageTooLong\b", b, flags=re.S)
        if not m:
            raise ParseError("MessageReader::new: no `if .. { return Err(Error::MessageTooLong(..)) }` gate")
        return m.group(1)
    g.func("src/message/reader/message_reader/reader.rs", "new", "reader_new_too_long",
           [("msg_len", [], "usize")], env_extra={"msg": ("msg", "usize")}, ret="Bool", body_filter=new_gate)
    e("")

    # KNOWN tables and associated constants
    g.table("src/records/type.rs", "KNOWN", "TYPE_KNOWN")
    g.table("src/records/class.rs", "KNOWN", "CLASS_KNOWN")
    g.table("src/message/rcode.rs", "KNOWN", "RCODE_KNOWN")
    g.assoc_consts("src/records/type.rs", "Type", "TYPE_")
    g.assoc_consts("src/records/class.rs", "Class", "CLASS_")
    g.func("src/records/class.rs", "is_data_class", "class_is_data", [("c", ["self.0"], "u16")])
    e("")

    # client constants and strategy predicates (std + async template must agree; both emitted)
    def strategy(path, prefix):
        src = strip_comments(read(path))
        ps = strip_comments(read("src/clients/config/protocol_strategy.rs"))
        m = re.search(r"pub\s+enum\s+ProtocolStrategy\s*\{([^}]*)\}", ps)
        if not m:
            raise ParseError("enum ProtocolStrategy not found")
        variants = [v.strip() for v in re.sub(r"#\[[^\]]*\]", "", m.group(1)).split(",") if v.strip()]
        if sorted(variants) != ["NoTcp", "Tcp", "Udp"]:
            raise ParseError("unexpected ProtocolStrategy variants %r" % variants)
        _, _, body = find_fn_body(src, "udp_first")
        mm = re.fullmatch(r"match\s+self\.config\.protocol_strategy_\s*\{(.*)\}", body.strip(), flags=re.S)
        if not mm:
            raise ParseError("udp_first is not a match on protocol_strategy_")
        table = {}
        for arm in mm.group(1).split(","):
            arm = arm.strip()
            if not arm:
                continue
            pats, val = arm.split("=>")
            val = val.strip()
            if val not in ("true", "false"):
                raise ParseError("udp_first arm value " + val)
            for p in pats.split("|"):
                p = p.strip().replace("ProtocolStrategy::", "")
                table[p] = val
        if sorted(table) != ["NoTcp", "Tcp", "Udp"]:
            raise ParseError("udp_first arms %r" % table)
        g.emit("/-- `%s` : `udp_first` (strategy numbering: Udp = 0, Tcp = 1, NoTcp = 2) -/" % path)
        g.emit("def %s_udp_first (s : Nat) : Bool := if s = 0 then %s else if s = 1 then %s else %s"
               % (prefix, table["Udp"], table["Tcp"], table["NoTcp"]))
        _, _, body = find_fn_body(src, "tcp_allowed")
        env = {"self.config.protocol_strategy_": ("s", "u8"),
               "ProtocolStrategy::Udp": ("0", "u8"), "ProtocolStrategy::Tcp": ("1", "u8"),
               "ProtocolStrategy::NoTcp": ("2", "u8")}
        ex = translate_expr(simple_body_expr(body), env, g.consts)
        g.emit("/-- `%s` : `tcp_allowed` -/" % path)
        g.emit("def %s_tcp_allowed (s : Nat) : Bool := %s" % (prefix, ex.lean))
    g.attempt("src/clients/std/client_impl.rs:strategy", lambda: strategy("src/clients/std/client_impl.rs", "std"))
    g.attempt("templates/async_client_impl.rs:strategy", lambda: strategy("templates/async_client_impl.rs", "async"))
    g.const("src/clients/std/client_impl.rs", "QUERY_BUFFER_SIZE", "STD_QUERY_BUFFER_SIZE")
    g.const("templates/async_client_impl.rs", "QUERY_BUFFER_SIZE", "ASYNC_QUERY_BUFFER_SIZE")
    e("")

    # ---- bounds tests of the cursor, pointer tests of the label walk, length gates of the name types ----
    N, B = "Nat", "Bool"
    CU = "src/bytes/cursor.rs"
    CURP = ["C01", "C04", "C10", "C17"]
    cur_env = {"self.pos": ("pos", "usize"), "self.buf": ("buf", "usize"), "self": ("cur", "usize"),
               "size": ("size", "usize"), "distance": ("distance", "usize"), "capacity": ("capacity", "usize")}
    g.guard(CURP, CU, "slice", r"\bif\s+([^{]*?)\s*\{", "cur_slice_fits",
            [("pos", N), ("buf_len", N), ("cur_len", N), ("size", N)], cur_env)
    g.guard(CURP, CU, "window", r"\bif\s+((?!self\.orig\.is_)[^{]*?)\s*\{", "cur_window_fits",
            [("pos", N), ("buf_len", N), ("cur_len", N), ("size", N)], cur_env)
    g.guard(CURP, CU, "close_window", r"\bif\s+((?!self\.orig\.is_)[^{]*?)\s*\{", "cur_close_ok",
            [("pos", N), ("buf_len", N)], cur_env)
    g.guard(CURP, CU, "skip", r"\bif\s+([^{]*?)\s*\{", "cur_skip_fits",
            [("cur_len", N), ("distance", N)], cur_env)
    g.guard(CURP, CU, "len", r"let\s+capacity\s*=\s*self\.capacity\(\)\s*;\s*(.*)$", "cur_len",
            [("capacity", N), ("pos", N)], cur_env, ret="Nat")
    g.guard(CURP, CU, "is_empty", r"^(.*)$", "cur_is_empty", [("cur_len", N)], cur_env)
    g.guard(CURP, CU, "u8", r"\bif\s+([^{]*?)\s*\{", "cur_u8_ok", [("is_empty", B)],
            {"EMPTY": ("is_empty", "bool")}, subst=[(r"self\.is_empty\(\)", "EMPTY")])
    g.guard(CURP, "src/bytes/macros.rs", "r_be!", r"\bif\s+([^{]*?)\s*\{\s*let\s+buf\s*=\s*unsafe", "cur_rbe_fits",
            [("cur_len", N), ("size_of_t", N)], {"SELF": ("cur", "usize"), "SIZEOF": ("size_of_t", "usize")},
            subst=[(r"\$self", "SELF"), (r"std::mem::size_of::<\$t>\(\)", "SIZEOF")])
    LM = "src/message/reader/labels/macros.rs"
    LABP = ["C01", "C03"]
    g.guard(LABP, LM, "labels_loop!", r"\bif\s+([^{]*?)\s*\{\s*return\s+Err\(\s*Error::DomainNameBadPointer", "ptr_not_backward",
            [("offset", N), ("max_pos", N)], {"offset": ("offset", "u16"), "MAXPOS": ("max_pos", "usize")},
            subst=[(r"\$max_pos", "MAXPOS")])
    g.guard(LABP, LM, "labels_loop!", r"\bif\s+([^{]*?)\s*\{\s*return\s+Err\(\s*Error::DomainNameTooMuchPointers", "ptr_too_many",
            [("n_pointers", N)], {"NPTR": ("n_pointers", "usize")}, subst=[(r"\$n_pointers", "NPTR")])
    g.guard(LABP, LM, "labels_loop!", r"\bif\s+([^{]*?)\s*\{\s*if\s+\$max_pos\s*==\s*0", "label_is_end",
            [("label", N)], {"label": ("label", "u8")})
    NAMP = ["C05", "C08"]
    for path, pfx, field in [("src/names/name.rs", "name", "self.name"), ("src/names/inline_name.rs", "inline", "self.arr")]:
        env = {field: ("name", "usize"), "label_as_str": ("label", "usize"), "new_len": ("new_len", "usize")}
        g.guard(NAMP, path, "append_label_bytes", r"let\s+new_len\s*=\s*([^;]*?)\s*;", pfx + "_decoded_new_len",
                [("name_len", N), ("label_len", N)], env, ret="Nat")
        g.guard(NAMP, path, "append_label_bytes", r"\bif\s+([^{]*?\bnew_len\b[^{]*?)\s*\{\s*return\s+Err\(\s*Error::DomainNameTooLong\(\s*([^)]*?)\s*\)", pfx + "_decoded_too_long",
                [("new_len", N)], env)
    g.guard(NAMP, "src/names/utils.rs", "check_name_bytes", r"let\s+full_length\s*=\s*if\s+last_byte\s*==\s*b'\.'\s*\{\s*([^}]*?)\s*\}\s*else", "text_full_len_dotted",
            [("len", N)], {"len": ("len", "usize")}, ret="Nat")
    g.guard(NAMP, "src/names/utils.rs", "check_name_bytes", r"let\s+full_length\s*=\s*if\s+last_byte\s*==\s*b'\.'\s*\{[^}]*\}\s*else\s*\{\s*([^}]*?)\s*\}\s*;", "text_full_len_undotted",
            [("len", N)], {"len": ("len", "usize")}, ret="Nat")
    g.guard(NAMP, "src/names/utils.rs", "check_name_bytes", r"\bif\s+([^{]*?)\s*\{\s*return\s+Err\(\s*Error::DomainNameTooLong", "text_too_long",
            [("full_length", N)], {"full_length": ("full_length", "usize")})
    e("")

    # ---- the gates and the matching tests of RecordSet::from_msg (src/records/record_set.rs) ----------
    RS = "src/records/record_set.rs"
    RSP = ["C06", "C07"]
    B = "Bool"

    def message_type_from_bool():
        # `impl From<bool> for MessageType`: `if value { Self::Response } else { Self::Query }`
        src = strip_comments(read("src/message/message_type.rs"))
        m = re.search(r"impl\s+From<bool>\s+for\s+MessageType\s*\{\s*fn\s+from\(value:\s*bool\)\s*->\s*Self\s*\{\s*if\s+value\s*\{\s*Self::(\w+)\s*\}\s*else\s*\{\s*Self::(\w+)\s*\}", src)
        if not m:
            raise ParseError("impl From<bool> for MessageType not in the expected shape")
        g.emit("/-- `src/message/message_type.rs` : `From<bool>`: `true` ↦ `%s`, `false` ↦ `%s`; `message_type_is_response b` = the value made from `b` is `Response` -/" % (m.group(1), m.group(2)))
        if m.group(1) == "Response" and m.group(2) == "Query":
            g.emit("def message_type_is_response (b : Bool) : Bool := b")
        elif m.group(1) == "Query" and m.group(2) == "Response":
            g.emit("def message_type_is_response (b : Bool) : Bool := !b")
        else:
            raise ParseError("unexpected variants %s/%s" % (m.group(1), m.group(2)))
    g.attempt("guard[C06,C07] src/message/message_type.rs:impl From<bool>", message_type_from_bool,
              lambda: g.emit("def message_type_is_response (b : Bool) : Bool := false"))
    g.guard(RSP, RS, "from_msg", r"\bif\s+([^{]*?)\s*\{\s*return\s+Err\(\s*Error::BadMessageType", "rrset_not_response",
            [("is_response", B)], {"ISRESP": ("is_response", "bool"), "TRUE": ("true", "bool")},
            subst=[(r"flags\.message_type\(\)", "ISRESP"), (r"MessageType::Response", "TRUE")])
    g.guard(RSP, RS, "from_msg", r"\bif\s+([^{]*?)\s*\{\s*return\s+Err\(\s*Error::MessageTruncated", "rrset_truncated",
            [("tc", B)], {"TC": ("tc", "bool")}, subst=[(r"flags\.truncated\(\)", "TC")])
    def rcode_noerror():
        src = strip_comments(read("src/message/rcode.rs"))
        m = re.search(r"pub\s+const\s+NOERROR\s*:\s*RCode\s*=\s*RCode::new\(\s*(\d+)\s*\)\s*;", src)
        if not m:
            raise ParseError("RCode::NOERROR not found")
        g.emit("/-- `src/message/rcode.rs` : `RCode::NOERROR` -/")
        g.emit("def RCODE_NOERROR : Nat := %s" % m.group(1))
    g.attempt("guard[C06,C07] src/message/rcode.rs:NOERROR", rcode_noerror, lambda: g.emit("def RCODE_NOERROR : Nat := 65536"))
    g.guard(RSP, RS, "from_msg", r"\bif\s+([^{]*?)\s*\{\s*return\s+Err\(\s*Error::BadResponseCode", "rrset_bad_rcode",
            [("response_code", "Nat")], {"response_code": ("response_code", "u16"), "NOERROR": ("RCODE_NOERROR", "u16")},
            subst=[(r"RCode::NOERROR", "NOERROR")])

    match_env = {"NAMEEQ": ("name_eq", "bool"), "TYPEEQ": ("type_eq", "bool"), "CLASSEQ": ("class_eq", "bool")}
    g.guard(RSP, RS, "extract_rrset", r"\bif\s+(h\.name\(\)[^{]*?)\s*\{\s*rrset\.ttl\s*=", "rrset_record_matches",
            [("name_eq", B), ("type_eq", B), ("class_eq", B)], match_env,
            subst=[(r"h\.name\(\)\.eq\(name\)\?", "NAMEEQ"), (r"h\.rtype\(\)\s*==\s*D::RTYPE", "TYPEEQ"), (r"h\.rclass\(\)\s*==\s*rclass", "CLASSEQ")])
    g.guard(RSP, RS, "extract_cname", r"\bif\s+(h\.name\(\)[^{]*?)\s*\{\s*let\s+n\s*=", "rrset_cname_matches",
            [("name_eq", B), ("type_eq", B), ("class_eq", B)], match_env,
            subst=[(r"h\.name\(\)\.eq\(name\)\?", "NAMEEQ"), (r"h\.rtype\(\)\s*==\s*Type::CNAME", "TYPEEQ"), (r"h\.rclass\(\)\s*==\s*rclass", "CLASSEQ")])
    g.guard(RSP, RS, "extract_rrset", r"rrset\.ttl\s*=\s*([^;]*?)\s*;", "rrset_ttl_step",
            [("ttl", "Nat"), ("record_ttl", "Nat")], {"rrset.ttl": ("ttl", "u32"), "HTTL": ("record_ttl", "u32")},
            subst=[(r"h\.ttl\(\)", "HTTL")], ret="Nat")
    g.guard(RSP, RS, "extract_rrset", r"\bif\s+(!?rrset\.rdata\.is_empty\(\))\s*\{\s*Ok\(Some\(rrset\)\)", "rrset_found",
            [("rdata_is_empty", B)], {"EMPTY": ("rdata_is_empty", "bool")}, subst=[(r"rrset\.rdata\.is_empty\(\)", "EMPTY")])
    g.guard(RSP, RS, "read_opt", r"\bif\s+([^{]*?)\s*\{\s*opt\s*=", "rrset_is_opt",
            [("rtype", "Nat")], {"marker.rtype": ("rtype", "u16"), "OPT": ("TYPE_OPT", "u16")}, subst=[(r"Type::OPT", "OPT")])
    e("")

    # ---- decision points of the query clients (both sources: hand-written std, async template) -------
    # the executable client model evaluates every one of these, so each is an obligation of all six
    # client properties
    CL = ["C11", "C12", "C13", "C14", "C15", "C16"]

    def client_guards(path, p, std):
        B, N = "Bool", "Nat"
        # query_raw (ClientImpl): the caller's buffer must hold a minimal message
        g.guard(CL, path, "query_raw", r"\bif\s+([^{]*?)\s*\{\s*return\s+Err\(\s*Error::BufferTooShort",
                p + "_buf_too_short", [("buf_len", N)], {"buf": ("buf", "usize")})
        # query_rrset: parameter gates
        g.guard(CL, path, "query_rrset", r"\bif\s+([^{]*?)\s*\{\s*return\s+Err\(\s*Error::BadParam",
                p + "_rrset_no_buffer", [("cfgbuf", N)], {"CFGBUF": ("cfgbuf", "usize")},
                subst=[(r"self\.config\.buffer_size\(\)", "CFGBUF")])
        g.guard(CL, path, "query_rrset", r"\bif\s+([^{]*?)\s*\{\s*return\s+Err\(\s*Error::UnsupportedClass",
                p + "_rrset_bad_class", [("is_data_class", B)], {"ISDATA": ("is_data_class", "bool")},
                subst=[(r"qclass\.is_data_class\(\)", "ISDATA")])
        # query_raw_impl: truncation fallback
        g.guard(CL, path, "query_raw_impl", r"\bif\s+([^{]*?)\s*\{\s*self\.tcp_exchange\(\)",
                p + "_tcp_fallback", [("tc", B), ("tcp_allowed", B)],
                {"TC": ("tc", "bool"), "TCPOK": ("tcp_allowed", "bool")},
                subst=[(r"flags\.truncated\(\)", "TC"), (r"self\.tcp_allowed\(\)", "TCPOK")])
        g.guard(CL, path, "query_raw_impl", r"\bif\s+(self\.udp_first\(\))\s*\{",
                p + "_udp_branch", [("udp_first", B)], {"UDPFIRST": ("udp_first", "bool")},
                subst=[(r"self\.udp_first\(\)", "UDPFIRST")])
        # tcp_exchange: the length prefix and its bound
        g.guard(CL, path, "tcp_exchange", r"let\s+response_size\s*=\s*(u16::from_be_bytes\(response_size_buf\)\s+as\s+usize)\s*;",
                p + "_tcp_prefix", [("b0", N), ("b1", N)], {"B0": ("b0", "u16"), "B1": ("b1", "u16")},
                subst=[(r"u16::from_be_bytes\(response_size_buf\)", "((B0 << 8) | B1)")], ret="Nat")
        g.guard(CL, path, "tcp_exchange", r"\bif\s+([^{]*?)\s*\{\s*return\s+Err\(\s*Error::BufferTooShort\(\s*response_size\s*\)",
                p + "_tcp_too_big", [("response_size", N), ("buf_len", N)],
                {"response_size": ("response_size", "usize"), "self.buf": ("buf", "usize")})
        # udp_receive_loop: the acceptance filter
        g.guard(CL, path, "udp_receive_loop", r"\bif\s+([^{]*?)\s*\{\s*continue\s*;",
                p + "_udp_id_reject", [("header_id", N), ("msg_id", N)],
                {"header.id": ("header_id", "u16"), "self.msg_id": ("msg_id", "u16")})
        g.guard(CL, path, "udp_receive_loop",
                r"if\s+let\s+Ok\(question\)\s*=\s*mr\.the_question\(\)\s*\{\s*if\s+([^{]*?)\s*\{\s*return\s+Ok\(\(size,\s*header\.flags\)\)",
                p + "_udp_question_match", [("qtype_eq", B), ("qclass_eq", B), ("qname_eq", B)],
                {"QT": ("qtype_eq", "bool"), "QC": ("qclass_eq", "bool"), "QN": ("qname_eq", "bool")},
                subst=[(r"question\.qtype\s*==\s*self\.qtype", "QT"), (r"question\.qclass\s*==\s*self\.qclass", "QC"),
                       (r"question\.qname\s*==\s*self\.qname", "QN")])
        # prepare_message: the advertised payload size
        g.guard(CL, path, "prepare_message", r"let\s+ups\s*=\s*([^;]*?)\s*;",
                p + "_ups", [("udp_payload_size", N), ("buf_len", N)],
                {"udp_payload_size": ("udp_payload_size", "u16"), "self.buf": ("buf", "usize")}, ret="Nat")
        g.guard(CL, path, "prepare_message", r"Some\(\s*Opt::new\(\s*version\s*,\s*([^)]*?)\s*\)\s*\)",
                p + "_ups_field", [("ups", N)], {"ups": ("ups", "usize")}, ret="Nat")
        if std:
            # the blocking client's clock arithmetic
            g.guard(CL, path, "time_left", r"\bif\s+([^{]*?)\s*\{\s*return\s+Err\(\s*Error::Timeout\s*\)",
                    p + "_lifetime_over", [("elapsed", N), ("lifetime", N)],
                    {"elapsed": ("elapsed", "u64"), "lifetime": ("lifetime", "u64")})
            g.guard(CL, path, "time_left", r"Ok\(\s*([^()]*?)\s*\)\s*$",
                    p + "_lifetime_left", [("elapsed", N), ("lifetime", N)],
                    {"elapsed": ("elapsed", "u64"), "lifetime": ("lifetime", "u64")}, ret="Nat")
            g.guard(CL, path, "query_left", r"\bif\s+([^{]*?)\s*\{\s*return\s+Err\(\s*Error::IoError\(\s*ErrorKind::TimedOut",
                    p + "_attempt_over", [("elapsed", N), ("timeout", N)],
                    {"elapsed": ("elapsed", "u64"), "timeout": ("timeout", "u64")})
            g.guard(CL, path, "query_left", r"Ok\(\s*(\(timeout[^;]*?)\s*\)\s*$",
                    p + "_query_left", [("elapsed", N), ("timeout", N), ("lifetime_left", N)],
                    {"elapsed": ("elapsed", "u64"), "timeout": ("timeout", "u64"), "lifetime_left": ("lifetime_left", "u64")}, ret="Nat")
    client_guards("src/clients/std/client_impl.rs", "std", True)
    client_guards("templates/async_client_impl.rs", "async", False)
    # ClientConfig::check: the two EDNS conditions
    CC = "src/clients/config/client_config.rs"
    g.guard(CL, CC, "check", r"\bif\s+((?![^{]*buffer_size_)[^{]*?udp_payload_size[^{]*?)\s*\{\s*return\s+Err\(\s*Error::BadParam",
            "cfg_payload_too_small", [("udp_payload_size", "Nat")], {"udp_payload_size": ("udp_payload_size", "u16")})
    g.guard(CL, CC, "check", r"\bif\s+([^{]*?buffer_size_[^{]*?)\s*\{\s*return\s+Err\(\s*Error::BadParam",
            "cfg_payload_exceeds_buffer", [("udp_payload_size", "Nat"), ("buffer_size", "Nat")],
            {"udp_payload_size": ("udp_payload_size", "u16"), "self.buffer_size_": ("buffer_size", "usize")})
    e("")

    # ---- client struct shapes for the auto-trait model (C19) ---------------------------------------
    TY_MAP = [
        (r"ClientConfig", "Ty.named .clientConfig"),
        (r"SocketAddr", "Ty.leaf .plain"), (r"ProtocolStrategy", "Ty.leaf .plain"), (r"Recursion", "Ty.leaf .plain"),
        (r"EDns", "Ty.leaf .plain"), (r"(?:arrayvec::)?ArrayString<[A-Za-z0-9_]+>", "Ty.leaf .plain"),
        (r"UdpSocket", "Ty.leaf .udpSocket"),
        (r"TcpStream", "Ty.leaf .tcpStream"),
        (r"Vec<u8>", "Ty.leaf .vecU8"),
        (r"MsgBuf", "Ty.leaf .arrayVecU8"),
        (r"ClientImpl", "Ty.named .clientImpl"),
        (r"Type", "Ty.leaf .plain"), (r"Class", "Ty.leaf .plain"), (r"u16", "Ty.leaf .plain"), (r"usize", "Ty.leaf .plain"),
        (r"Instant", "Ty.leaf .plain"), (r"Duration", "Ty.leaf .plain"),
        (r"str", "Ty.leaf .str"), (r"\[u8\]", "Ty.leaf .sliceU8"),
    ]

    # `type X = Y;` aliases of the configuration module (cfg-gated ones included: every variant of the
    # struct has to be Send + Sync)
    ALIASES = {}
    try:
        for am in re.finditer(r"\btype\s+(\w+)\s*=\s*([^;]+);", strip_comments(read("src/clients/config/client_config.rs"))):
            ALIASES[am.group(1)] = " ".join(am.group(2).split())
    except OSError:
        pass

    def ty_of(text):
        t = text.strip()
        m = re.fullmatch(r"&\s*(?:'\w+\s+)?mut\s+(.*)", t)
        if m:
            return "(Ty.ref true %s)" % ty_of(m.group(1))
        m = re.fullmatch(r"&\s*(?:'\w+\s+)?(.*)", t)
        if m:
            return "(Ty.ref false %s)" % ty_of(m.group(1))
        m = re.fullmatch(r"Option<(.*)>", t)
        if m:
            return ty_of(m.group(1))          # `Option<T>` has an auto trait iff `T` has it
        if t in ALIASES:
            return ty_of(ALIASES[t])
        for pat, lean in TY_MAP:
            if re.fullmatch(pat, t):
                return "(%s)" % lean
        return "(Ty.unknown %s)" % json.dumps(t)

    def struct_fields(path, name, lean_name):
        def go():
            src = strip_comments(read(path))
            m = re.search(r"struct\s+%s\s*(?:<[^>]*>)?\s*\{" % name, src)
            if not m:
                raise ParseError("struct %s not found in %s" % (name, path))
            body = src[m.end():matching_brace(src, m.end() - 1) - 1]
            body = re.sub(r"#\[[^\]]*\]", "", body)     # field attributes (cfg-gated fields are kept)
            fields = []
            for part in body.split(","):
                part = part.strip()
                if not part:
                    continue
                part = re.sub(r"^pub(\([^)]*\))?\s+", "", part)
                if ":" not in part:
                    raise ParseError("struct %s: cannot parse field %r" % (name, part))
                fname, ftype = part.split(":", 1)
                fields.append((fname.strip(), " ".join(ftype.split())))
            g.emit("/-- `%s` : `struct %s` fields: %s -/" % (path, name, "; ".join("%s: %s" % f for f in fields)))
            g.emit("def %s : List Ty := [%s]" % (lean_name, ", ".join(ty_of(t) for _, t in fields)))
        g.attempt("%s:struct %s" % (path, name), go)

    e("/-- type shapes for the auto-trait model (leaf classes in Rsdns/Model/AutoTrait.lean) -/")
    e("inductive Leaf where")
    e("  | plain | clientConfig | udpSocket | tcpStream | vecU8 | arrayVecU8 | str | sliceU8")
    e("deriving DecidableEq, Repr")
    e("inductive SName where")
    e("  | client | clientImpl | clientCtx | clientConfig")
    e("deriving DecidableEq, Repr")
    e("inductive Ty where")
    e("  | leaf (l : Leaf) | ref (mutable : Bool) (t : Ty) | named (n : SName) | unknown (text : String)")
    e("deriving Repr")
    struct_fields("src/clients/std/client_impl.rs", "ClientImpl", "STD_CLIENT_IMPL")
    struct_fields("src/clients/std/client_impl.rs", "ClientCtx", "STD_CLIENT_CTX")
    struct_fields("templates/async_client_impl.rs", "ClientImpl", "ASYNC_CLIENT_IMPL")
    struct_fields("templates/async_client_impl.rs", "ClientCtx", "ASYNC_CLIENT_CTX")
    struct_fields("templates/client.rs", "Client", "CLIENT")
    struct_fields("src/clients/config/client_config.rs", "ClientConfig", "CLIENT_CONFIG")
    e("")

    # ---- allocation-site inventory (C20) -------------------------------------------------------
    ALLOC_RE = re.compile(
        r"Vec::from|Vec::with_capacity|Vec::new|\bvec!|extend_from_slice|String::from|String::new|String::with_capacity|"
        r"\.to_string\(|\.to_owned\(|\.to_vec\(|format!|Box::new|\.collect\(|(?<!arr)\.push_str\(|(?<!arr)\.push\(|\.reserve\(")
    FNS = [
        ("src/bytes/cursor.rs", ["new", "with_pos", "clone_with_pos", "window", "close_window", "set_pos", "skip", "len",
                                 "u16_be", "u32_be", "u128_be", "u8", "slice", "bound_error"]),
        ("src/bytes/reader.rs", ["read"]),
        ("src/message/reader/labels.rs", ["next_label", "skip_next_label", "next_impl", "skip_impl", "read_domain_name",
                                           "skip_domain_name", "skip_question", "skip_rr"]),
        ("src/names/utils.rs", ["check_label_bytes", "check_name_bytes"]),
        ("src/names/inline_name.rs", ["append_label_bytes", "set_root", "eq", "cmp", "hash"]),
        ("src/names/name.rs", ["append_label_bytes", "set_root"]),
        ("src/message/character_string.rs", ["read_character_string"]),
        ("src/message/header.rs", ["read"]),
        ("src/message/question.rs", ["read"]),
        ("src/message/reader/question_ref.rs", ["read"]),
        ("src/message/reader/name_ref.rs", ["labels", "eq", "ne"]),
        ("src/message/reader/section_tracker.rs", ["set", "next_section", "section_offset", "seek", "section_read",
                                                    "question_read", "records_left", "records_left_in", "questions_left"]),
        ("src/message/reader/message_reader/reader.rs", [
            "new", "header", "header_impl", "seek", "seek_impl", "skip_section_impl", "questions_count", "question",
            "question_ref", "the_question", "the_question_ref", "skip_questions", "skip_questions_impl", "records_count",
            "records_count_in", "record_marker", "marker_impl", "raw_marker_impl", "record_header_ref",
            "record_header_ref_impl", "record_header", "record_header_impl", "skip_record_data", "skip_record_data_impl",
            "record_data_bytes", "record_data", "opt_record", "opt_record_impl", "record_data_bytes_at", "record_data_at",
            "name_ref_at", "calc_section"]),
        ("src/message/reader/message_iterator.rs", ["new", "question", "questions", "records", "section_offset"]),
        ("src/message/reader/questions.rs", ["read"]),
        ("src/message/reader/records.rs", ["read", "read_impl"]),
        ("src/records/opt.rs", ["from_msg"]),
        ("src/records/record_set.rs", ["from_msg", "extract_rrset", "extract_cname", "read_answer_headers", "read_opt"]),
    ]

    def alloc_table():
        rows = []
        for path, fns in FNS:
            src = strip_comments(read(path))
            # test modules do not count
            src = re.split(r"#\[cfg\(test\)\]\s*mod\s+tests?\s*\{", src)[0]
            for fn in fns:
                try:
                    _, _, body = find_fn_body(src, fn)
                except ParseError:
                    raise ParseError("fn %s not found in %s" % (fn, path))
                n = len(ALLOC_RE.findall(body))
                rows.append((path.replace("src/", "").replace(".rs", "") + "::" + fn, n))
        # the macro files: bodies are macro arms, scan them whole
        for path, label in [("src/message/reader/labels/macros.rs", "labels/macros"),
                            ("src/message/reader/message_reader/macros.rs", "message_reader/macros"),
                            ("src/bytes/macros.rs", "bytes/macros")]:
            rows.append((label, len(ALLOC_RE.findall(strip_comments(read(path))))))
        # typed decoders: one row per record-data type (the impl block that follows `for Cursor<'_>`)
        src = strip_comments(read("src/records/data/rfc1035.rs")) + strip_comments(read("src/records/data/rfc3596.rs"))
        for ty in ["A", "Aaaa", "Hinfo", "Wks", "Minfo", "Mx", "Null", "Soa", "Txt"]:
            m = re.search(r"impl\s+RrDataReader<%s>\s+for\s+Cursor<'_>\s*\{" % ty, src)
            if not m:
                raise ParseError("RrDataReader<%s> not found" % ty)
            end = matching_brace(src, m.end() - 1)
            rows.append(("rdata::" + ty, len(ALLOC_RE.findall(src[m.end():end]))))
        msrc = strip_comments(read("src/records/data/macros.rs"))
        rows.append(("rdata::rr_dn_data", len(ALLOC_RE.findall(msrc))))
        # the Error type must not own heap data on these paths: only IoError may
        esrc = strip_comments(read("src/errors.rs"))
        m = re.search(r"pub\s+enum\s+Error\s*\{", esrc)
        body = esrc[m.end():matching_brace(esrc, m.end() - 1)]
        heapy = len(re.findall(r"\bString\b|\bVec<|\bBox<", body))
        rows.append(("errors::Error(heap fields)", heapy))
        def ident(name):
            parts = name.replace("(heap fields)", "_heap_fields").split("::")
            stem = parts[0].split("/")[-1] if len(parts) > 1 else parts[0].replace("/", "_")
            rest = "_".join(parts[1:]) if len(parts) > 1 else ""
            return re.sub(r"[^A-Za-z0-9_]", "_", (stem + "_" + rest) if rest else stem)
        ids = [(ident(n), n, c) for n, c in rows]
        if len(set(i for i, _, _ in ids)) != len(ids):
            raise ParseError("allocation inventory: identifier clash")
        g.emit("/-- the Rust functions (and macro files) whose bodies are scanned for allocating constructs:")
        g.emit("    Vec::from/with_capacity/new, vec!, extend_from_slice, String::from/new, to_string, to_owned, to_vec,")
        g.emit("    format!, Box::new, collect, push/push_str (not on ArrayString `arr`), reserve. -/")
        g.emit("inductive RustFn where")
        for i, n, c in ids:
            g.emit("  | %s  -- %s" % (i, n))
        g.emit("deriving DecidableEq, Repr")
        g.emit("")
        g.emit("/-- number of allocating constructs found in the body of each function -/")
        g.emit("def allocSites : RustFn → Nat")
        for i, n, c in ids:
            g.emit("  | .%s => %d" % (i, c))
    g.attempt("allocation-site inventory", alloc_table)
    e("")

    e("/-- items the translator could not find or parse (empty on a healthy tree) -/")
    e("def missing : List String := [%s]" % ", ".join(json.dumps(m) for m in g.missing))
    e("")
    e("end Rsdns.Generated")
    return g


def main():
    g = gen_all()
    text = "\n".join(g.lines) + "\n"
    out = os.path.normpath(OUT)
    old = None
    if os.path.exists(out):
        with open(out, "r", encoding="utf-8") as f:
            old = f.read()
    if old != text:
        with open(out, "w", encoding="utf-8") as f:
            f.write(text)
    rep = {"missing": g.missing, "items": g.report, "changed": old != text}
    if "--json" in sys.argv:
        print(json.dumps(rep))
    else:
        for k, v in g.report.items():
            print("%-60s %s" % (k, v))
    return 0


if __name__ == "__main__":
    sys.exit(main())
