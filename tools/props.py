"""
tools/props.py — the per-property registry used by /verif/check.

STREAMS: correspondence streams (generator + evaluator live in harness/src/streams/<name>.rs, the
model side in lean/Rsdns/Driver.lean).  For each stream:
  kinds        request kinds (first token) that belong to it (for corpus files)
  quick/thorough  number of generated cases per tier
  canon(ans)   canonical form compared between implementation and model (the correspondence)
  proj(req, ans)  what the *property* determines about an answer (compared between implementation
               and specification when the correspondence breaks: the replay search)
  impl_oracle(req, ans)  a verdict on the implementation's answer alone (crash, hang, slice outside
               the message, allocation on the allocation-free API …) or None
  nontrivial(req, ans)   rule for `distinct_nontrivial`
  outcome_key(req, ans)  histogram bucket
"""
import re


def hexlen(h):
    return 0 if h == "-" else len(h) // 2


def kind_of(ans):
    """ok | err <Kind> | panic | abort | timeout | ub | other"""
    t = ans.split(" ")
    if t[0] == "ok":
        return "ok"
    if t[0] == "err":
        return "err " + re.sub(r"\(.*", "", t[1] if len(t) > 1 else "")
    return re.sub(r"\(.*", "", t[0])


def crash_oracle(req, ans):
    k = ans.split(" ")[0]
    if k.startswith("abort") or k == "timeout":
        return "the implementation aborted or hung: " + ans[:120]
    if k == "panic" or k.startswith("panic("):
        return "the implementation panicked: " + ans[:120]
    if k == "slice-outside-message":
        return "the implementation returned a slice outside the message"
    if k == "ub":
        return "undefined behaviour"
    return None


def ub_only_oracle(req, ans):
    """C17: panics at documented debug assertions are tolerated; aborts / UB / foreign slices are not"""
    k = ans.split(" ")[0]
    if k.startswith("abort") or k == "timeout" or k == "slice-outside-message" or k == "ub":
        return "memory-unsafe outcome: " + ans[:120]
    return None


def proj_ok_exact_err_any(req, ans):
    """successful results are fully determined by the specification; for rejections only the fact"""
    t = ans.split(" ")
    if t[0] == "ok":
        return ans
    if t[0] == "err":
        return "err"
    return ans


def proj_kind(req, ans):
    t = ans.split(" ")
    if t[0] == "ok":
        return ans
    return kind_of(ans)


def ident(a):
    return a


def shrink_hex_last(req):
    """candidates: drop bytes from the end / the start of the last (hex) token"""
    toks = req.split(" ")
    h = toks[-1]
    if h == "-" or len(h) < 4:
        return
    n = len(h) // 2
    for cut in (n // 2, n // 4, 1):
        if cut >= 1 and n - cut >= 1:
            yield " ".join(toks[:-1] + [h[:2 * (n - cut)]])


STREAMS = {
    "name": dict(
        kinds=["name"], quick=40000, thorough=1500000,
        canon=ident, proj=proj_ok_exact_err_any, impl_oracle=crash_oracle,
        nontrivial=lambda req, ans: hexlen(req.split(" ")[3]) >= 2 and not ans.startswith("err EndOfBuffer"),
        outcome_key=lambda req, ans: req.split(" ")[1] + ":" + kind_of(ans),
        shrink=shrink_hex_last,
    ),
}

TRUSTED_BASE = [
    "Lean 4.33.0 kernel (thorough tier: leanchecker re-checks the .olean independently)",
    "axioms: at most propext, Classical.choice, Quot.sound (audited per theorem on every run with #print axioms); no sorry/admit/own axioms/native_decide/bv_decide",
    "hand-written Lean model lean/Rsdns/Model/*.lean — tied to /repo by the correspondence streams of this run (counts below) and by tools/extract.py, which regenerates Rsdns/Generated.lean (constants, masks, bit getters, tables) from the Rust source on every run",
    "the compiled Lean driver evaluates the same definitions the theorems are about (Lean compiler trusted)",
    "harness: generators, canonical printers, guard-page buffers, checked build profile (debug assertions, overflow checks, std unsafe-precondition checks)",
    "rustc/LLVM compile the crate as the language defines",
]

DEFAULT_RULE = ("cases are generated from one SplitMix64 state per (stream, seed, index): structured mostly-valid inputs, "
                "boundary-directed recipes derived from the model's guards, mutated and random inputs, corpus first; "
                "distinct = distinct request lines (blake2b); non-trivial = reaches past the first bounds test "
                "(buffer ≥ 2 bytes and the outcome is not EndOfBuffer at the first byte)")

HOOK_COMMITS = ["7a8c9dd"]

NOT_APPLICABLE = {}

PROPS = {
    "C03": dict(
        level="proof", module="Rsdns.Props.C03",
        technique="Lean 4 theorems (soundness vs RFC 1035 §4.1.4 expansion, rejection, completeness) + differential correspondence",
        level_text="Machine-checked theorems over the Lean model of labels_loop! for all messages, positions and pointer graphs "
                   "(no bound on sizes or hops beyond the code's own 32): soundness of read/skip/iterate against the RFC expansion "
                   "relation including the resume position, the four rejection theorems, completeness for backward-only layouts. "
                   "The model is tied to /repo by generated constants/masks and by the `name` correspondence stream.",
        level_note="Trusted: Lean kernel; axioms ⊆ {propext, Classical.choice, Quot.sound}; the hand-written model of "
                   "labels.rs/labels/macros.rs/cursor.rs (validated by correspondence on every run); tools/extract.py; harness.",
        streams=[dict(name="name")],
        explanation="Theorems: soundness of read/skip/iterate against the RFC 1035 §4.1.4 expansion relation incl. resume "
                    "position, the four rejection theorems, and completeness for backward-only (conforming) layouts; "
                    "correspondence: stream `name` through all four instantiations of labels_loop!.",
        assumptions=["hook verif_hooks::{read_domain_name, skip_domain_name, labels_at} only forwards to the crate-private functions"],
    ),
}
