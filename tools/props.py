"""
tools/props.py — the per-property registry used by /verif/check.

STREAMS: correspondence streams (generator + evaluator live in harness/src/streams/<name>.rs, the
model side in lean/Rsdns/Driver.lean).  For each stream:
  kinds        request kinds (first token) that belong to it (for corpus files)
  quick/thorough  number of generated cases per tier
  canon(ans)   canonical form compared between implementation and model (the correspondence)
  proj(req, ans)  what the *property* determines about an answer (compared between implementation
               and specification when the correspondence breaks: the replay search)
  impl_oracle(req, ans)  a verdict on the implementation's answer alone (crash, hang, slice outside
               the message, allocation on the allocation-free API …) or None
  nontrivial(req, ans)   rule for `distinct_nontrivial`
  outcome_key(req, ans)  histogram bucket
"""
import re


def hexlen(h):
    return 0 if h == "-" else len(h) // 2


def kind_of(ans):
    """ok | err <Kind> | panic | abort | timeout | ub | other"""
    t = ans.split(" ")
    if t[0] == "ok":
        return "ok"
    if t[0] == "err":
        return "err " + re.sub(r"\(.*", "", t[1] if len(t) > 1 else "")
    return re.sub(r"\(.*", "", t[0])


def crash_oracle(req, ans):
    k = ans.split(" ")[0]
    if k.startswith("abort") or k == "timeout":
        return "the implementation aborted or hung: " + ans[:120]
    if k == "panic" or k.startswith("panic("):
        return "the implementation panicked: " + ans[:120]
    if k == "slice-outside-message":
        return "the implementation returned a slice outside the message"
    if k == "ub":
        return "undefined behaviour"
    if k == "resumed-after-error":
        return "the label walk went on after it had rejected the name: " + ans[:120]
    return None


def ub_only_oracle(req, ans):
    """C17: panics at documented debug assertions are tolerated; aborts / UB / foreign slices are not"""
    k = ans.split(" ")[0]
    if k.startswith("abort") or k == "timeout" or k == "slice-outside-message" or k == "ub":
        return "memory-unsafe outcome: " + ans[:120]
    return None


def names_agree_oracle(req, ans):
    """C08/C03 on the implementation alone: the four decoders of one wire name (owned heap / owned inline
    / skipping / label iterator) agree — where the owned decoder succeeds the others succeed with the
    same text, the same labels and the same end position; where it rejects the name for anything but
    its length, the skipping decoder and the label walk reject it too"""
    if ans == "bad-request":
        return None
    parts = {}
    for p in ans.split(" | "):
        k, _, v = p.partition("=")
        parts[k] = v
    for k, v in parts.items():
        c = crash_oracle(req, v)
        if c:
            return "%s decoder: %s" % (k, c)
    h, i, sk, it = parts.get("heap", ""), parts.get("inline", ""), parts.get("skip", ""), parts.get("iter", "")
    if h.startswith("ok "):
        t = h.split(" ")
        text, nxt = t[1], t[2]
        if i != h:
            return "Name and InlineName decode the same wire name differently: %s vs %s" % (h[:80], i[:80])
        if not sk.startswith("ok ") or sk.split(" ")[2] != nxt:
            return "the owned decoder accepts the name (%s), the skipping decoder says %s" % (nxt, sk[:80])
        if not it.startswith("ok"):
            return "the owned decoder accepts the name, the label walk of the same name fails: %s" % it[:80]
        labs = [x.split("@")[0] for x in it[3:].split(",") if x]
        joined = "".join(l + "2e" for l in labs) or "2e"
        if joined != text:
            return "the labels walked (%s) are not the labels of the decoded name (%s)" % (joined[:80], text[:80])
    elif h.startswith("err ") and not h.startswith("err DomainNameTooLong"):
        if sk.startswith("ok "):
            return "the owned decoder rejects the name (%s), the skipping decoder accepts it" % h[:60]
        if it.startswith("ok"):
            return "the owned decoder rejects the name (%s), the label walk accepts it" % h[:60]
    return None


def strip_hash_marks(ans):
    """the recording hasher marks every `write` call of other than one byte with `fffe`; how the bytes
    are grouped into calls is not part of the model (any grouping is fine as long as equal names use
    the same one — `cmp_oracle`)"""
    return re.sub(r"(ha|hb|iha)=((?:[0-9a-f]{2})*)", lambda m: m.group(1) + "=" + m.group(2).replace("fffe", ""), ans)


def cmp_oracle(req, ans):
    """C18 on the implementation alone: equal ⇔ compare Equal, both name types agree, and equal names
    feed a hasher the same bytes through the same sequence of calls"""
    c = crash_oracle(req, ans)
    if c:
        return c
    if ans in ("partial-cmp-disagrees", "from-ref-disagrees"):
        return ans
    if not ans.startswith("eq="):
        return None
    f = dict(t.split("=", 1) for t in ans.split(" ") if "=" in t)
    if (f["eq"] == "true") != (f["cmp"] == "eq") or (f["ieq"] == "true") != (f["icmp"] == "eq"):
        return "equality and ordering disagree: %s" % ans[:80]
    if f["eq"] != f["ieq"] or f["cmp"] != f["icmp"] or f["xeq"] != f["eq"]:
        return "the two name types give different verdicts: %s" % ans[:80]
    if f["eq"] == "true" and f["ha"] != f["hb"]:
        return "equal names do not hash alike (bytes or call sequence fed to the hasher differ): %s vs %s" % (f["ha"][:60], f["hb"][:60])
    return None


def proj_ok_exact_err_any(req, ans):
    """successful results are fully determined by the specification; for rejections only the fact"""
    t = ans.split(" ")
    if t[0] == "ok":
        return ans
    if t[0] == "err":
        return "err"
    return ans


def proj_kind(req, ans):
    t = ans.split(" ")
    if t[0] == "ok":
        return ans
    return kind_of(ans)


def ident(a):
    return a


def shrink_hex_last(req):
    """candidates: drop bytes from the end / the start of the last (hex) token"""
    toks = req.split(" ")
    h = toks[-1]
    if h == "-" or len(h) < 4:
        return
    n = len(h) // 2
    for cut in (n // 2, n // 4, 1):
        if cut >= 1 and n - cut >= 1:
            yield " ".join(toks[:-1] + [h[:2 * (n - cut)]])


STREAMS = {
    "name": dict(
        kinds=["name"], quick=40000, thorough=1500000,
        canon=ident, proj=proj_ok_exact_err_any, impl_oracle=crash_oracle,
        nontrivial=lambda req, ans: hexlen(req.split(" ")[3]) >= 2 and not ans.startswith("err EndOfBuffer"),
        outcome_key=lambda req, ans: req.split(" ")[1] + ":" + kind_of(ans),
        shrink=shrink_hex_last,
    ),
    "names": dict(
        kinds=["names"], quick=30000, thorough=1000000,
        canon=ident, proj=lambda req, ans: " | ".join(proj_ok_exact_err_any(req, p.partition("=")[2]) for p in ans.split(" | ")),
        impl_oracle=names_agree_oracle,
        nontrivial=lambda req, ans: hexlen(req.split(" ")[2]) >= 2 and "heap=err EndOfBuffer" not in ans,
        outcome_key=lambda req, ans: ",".join(kind_of(p.partition("=")[2]) for p in ans.split(" | ")),
        shrink=shrink_hex_last,
    ),
}

def reader_key(req, ans):
    t = ans.split(" ")
    errs = [x for x in t if x.startswith("E:")]
    nops = len(req.split(" ")) - 2
    bucket = "1-5" if nops <= 5 else "6-15" if nops <= 15 else "16-40" if nops <= 40 else "41+"
    first = re.sub(r"\(.*", "", errs[0]) if errs else ("P" if "P" in t else "no-error")
    return "ops %s, first error: %s" % (bucket, first)


def reader_oracle(req, ans):
    c = crash_oracle(req, ans)
    if c:
        return c
    t = ans.split(" ")
    if "UB" in t or "slice-outside-message" in t:
        return "undefined behaviour / slice outside the message"
    return None


def reader_oracle_conf(req, ans):
    """documented-order histories: a panic token is a violation too"""
    c = reader_oracle(req, ans)
    if c:
        return c
    if "P" in ans.split(" "):
        return "the implementation panicked on a protocol-conforming history"
    return None


def purity_oracle(req, ans):
    c = reader_oracle(req, ans)
    if c:
        return c
    if "IMPURE!" in ans:
        return "marker-based random access depends on the reader's state: " + \
            [x for x in ans.split(" ") if x.startswith("IMPURE!")][0][:160]
    return None


def proj_tokens_ok_exact(req, ans):
    """per output token: values exact, errors reduced to the fact"""
    return " ".join(("E" if x.startswith("E:") else x) for x in ans.split(" "))


def roundtrip_oracle(req, ans):
    c = crash_oracle(req, ans)
    if c:
        return c
    if ans in ("heap-inline-disagree",):
        return "the two name types decode the same wire name differently"
    rt = req.split(" ")
    a = ans.split(" ")
    if rt[0] == "rt":
        if a[0] == "ok":
            want = ["heap=ok", "inline=ok", "check=ok", "same=true"]
            if a[2:] != want:
                return "a decoded name does not re-parse to an equal name: " + " ".join(a[2:])[:160]
        return None
    if rt[0] == "enc":
        s_hex = rt[1]
        fields = dict(x.split("=", 1) for x in a[1:] if "=" in x)
        parse, chk = fields.get("parse"), fields.get("check")
        if a[0] == "ok":
            n = int(a[1])
            raw = b"" if s_hex == "-" else bytes.fromhex(s_hex)
            canon = raw if raw.endswith(b".") else raw + b"."
            if parse not in ("11", "--") or chk != "1":
                return "the encoder accepts a name the parsers/validator reject (parse=%s check=%s)" % (parse, chk)
            if n > 255:
                return "encoded name longer than 255 octets"
            dec = fields.get("dec", "")
            if dec.startswith("!") or bytes.fromhex(dec if dec != "-" else "") != canon:
                return "decode(encode(name)) is not the canonical spelling: " + dec[:80]
            if fields.get("next") != str(n):
                return "decoding does not consume exactly the encoded bytes"
        elif a[0] == "err":
            if parse == "11" or parse in ("10", "01") or chk == "1":
                return "the encoder rejects a name a parser/validator accepts (parse=%s check=%s)" % (parse, chk)
        return None
    return None


def rrset_truth_oracle(req, ans):
    """C06: the generator's independent reference (computed on the semantic message) is the specification"""
    c = rrset_gate_oracle(req, ans)
    if c:
        return c
    t = req.split(" ")
    if len(t) == 4 and t[3].startswith("exp="):
        exp = t[3][4:]
        got = ans.replace(" ", ":", 1)
        if exp == "gate":
            if ans.startswith("ok"):
                return ("a record set was returned although a gate is closed in the message as generated (QR / TC / QDCOUNT / "
                        "12-bit extended RCODE = header RCODE | OPT extension << 4)")
            return None
        if exp.startswith("err:"):
            if got != exp:
                return "expected %s, got %s" % (exp, got[:120])
        elif got != exp:
            return "record set differs from the CNAME-chain reference: expected %s, got %s" % (exp[:160], got[:160])
    return None


def cfg_expected(req):
    """C13/C11 "as configured", without the model: every field holds the argument of the last call that
    sets it; the wildcard bind address follows the family of the name server, an explicit one is kept;
    a non-zero buffer size is at least 512"""
    t = req.split(" ")
    U4, U6 = "4-0-0", "6-0-0"
    f = dict(ns=U4, bind=U4, lt="10000", qt="2000", st="0", rd="1", buf="65535", edns="0-1232")
    if t[1].startswith("with:"):
        f["ns"] = t[1][5:]
        f["bind"] = U6 if f["ns"].startswith("6-") else U4
    for op in t[2:]:
        k, v = op.split(":", 1)
        if k == "ns":
            f["ns"] = v
            if f["bind"] in (U4, U6):
                f["bind"] = U6 if v.startswith("6-") else U4
        elif k == "buf":
            n = int(v)
            f["buf"] = str(max(n, 512) if n > 0 else 0)
        else:
            f[k] = v
    f["has"] = "0" if f["ns"] in (U4, U6) else "1"
    return " ".join("%s=%s" % (k, f[k]) for k in ("ns", "bind", "lt", "qt", "st", "rd", "buf", "edns", "has"))


RFC1035_TYPES = {"A": 1, "NS": 2, "MD": 3, "MF": 4, "CNAME": 5, "SOA": 6, "MB": 7, "MG": 8, "MR": 9, "NULL": 10, "WKS": 11,
                 "PTR": 12, "HINFO": 13, "MINFO": 14, "MX": 15, "TXT": 16, "AAAA": 28}


def cfg_oracle(req, ans):
    c = crash_oracle(req, ans)
    if c:
        return c
    if ans == "bad-request":
        return None
    if req.startswith("rtype "):
        want = RFC1035_TYPES.get(req.split(" ")[1])
        if want is not None and ans != "ok %d" % want:
            return "a typed query for %s asks for (and filters by) TYPE %s, RFC 1035 / 3596 say %d" % (req.split(" ")[1], ans[3:], want)
        return None
    exp = cfg_expected(req)
    if ans != exp:
        bad = [a for a, b in zip(ans.split(" "), exp.split(" ")) if a != b]
        return "the configuration built differs from what the calls say: got %s, expected %s" % (" ".join(bad), " ".join(b for a, b in zip(ans.split(" "), exp.split(" ")) if a != b))
    return None


def client_canon(ans):
    """drop the timing fields; mask the (random) message ID at the start of an accepted raw answer"""
    groups = []
    for g in ans.split(" | "):
        toks = [t for t in g.split(" ") if not t.startswith("ms=") and not t.startswith("t=")]
        out = []
        for t in toks:
            m = re.match(r"res=ok:(\d+):([0-9a-f]+)$", t)
            if m and len(m.group(2)) >= 4:
                t = "res=ok:%s:0000%s" % (m.group(1), m.group(2)[4:])
            out.append(t)
        groups.append(" ".join(out))
    return " | ".join(groups)


def client_fields(group):
    d = {}
    for t in group.split(" "):
        if "=" in t:
            k, v = t.split("=", 1)
            d[k] = v
    return d


def client_equiv(a, b):
    """equality of canonical client answers, tolerating ±1 retransmission at a lifetime edge"""
    if a == b:
        return True
    if "blackhole-unavailable" in (a, b):
        return True     # the environment could not build a SYN black hole: the case says nothing
    ga, gb = a.split(" | "), b.split(" | ")
    if len(ga) != len(gb):
        return False
    for x, y in zip(ga, gb):
        if x == y:
            continue
        fx, fy = client_fields(x), client_fields(y)
        if set(fx) != set(fy):
            return False
        for k in fx:
            if k == "nudp":
                # `a` is the implementation, `b` the model (which has no clock noise). One more
                # transmission than the model expects is tolerated when the query was answered all the
                # same (the scripted answer came in behind an attempt deadline on a busy machine; a
                # retransmission that is too EARLY is the timing oracle's business), and ±1 at the
                # lifetime edge of a query that timed out
                late_answer = fx.get("res", "").startswith("ok") and int(fx[k]) - int(fy[k]) == 1
                if abs(int(fx[k]) - int(fy[k])) > 1 or (fx[k] != fy[k] and not late_answer
                                                        and not fx.get("res", "").startswith(("err:Timeout", "dropped"))):
                    return False
            elif fx[k] != fy[k]:
                return False
    return True


def client_req(req):
    toks = req.split(" ")
    cfg = {}
    for t in toks[1:]:
        if t.startswith("api="):
            break
        if "=" in t:
            k, v = t.split("=", 1)
            cfg[k] = v
    qs = []
    cur = None
    for t in toks[1:]:
        if t.startswith("api="):
            cur = {}
            qs.append(cur)
        if t == "|":
            continue
        if cur is not None and "=" in t:
            k, v = t.split("=", 1)
            cur[k] = v
    return cfg, qs


def tcp_sent_check(q, f):
    """C14/C16 on the implementation alone: a raw answer that came over TCP is exactly the N bytes the
    scripted server announced AND sent on that connection (never a short success padded with whatever
    the buffer held before)"""
    m = re.match(r"ok:(\d+):([0-9a-f]*)$", f.get("res", ""))
    if not m or q.get("api") != "raw" or f.get("ntcp", "0") == "0":
        return None
    script = q.get("tcp", "-")
    if script in ("-", ""):
        return None
    entry = script.split(";")[0]
    tmpl = "".join(i for i in entry.split(",") if not re.fullmatch(r"p\d+|c|h|z|\.", i))
    if not re.fullmatch(r"[0-9a-f]{4}", tmpl[:4]):
        return None
    n, body = int(tmpl[:4], 16), tmpl[4:]
    got_n, got = int(m.group(1)), m.group(2)
    if got_n != n:
        return "the TCP prefix announced %d bytes, %d were returned" % (n, got_n)
    if len(body) < 2 * n:
        return "short success: the server sent %d of the %d announced bytes and closed, the call returned Ok(%d)" % (len(body) // 2, n, n)
    exp = body[:2 * n]
    if len(got) == 2 * n and n >= 2 and exp[4:] != got[4:] and "I" not in exp[4:]:
        return "the bytes returned differ from the %d bytes the server sent" % n
    return None


def client_oracle(req, ans):
    """what the client properties demand of an answer line, judged without the model"""
    c = crash_oracle(req, ans)
    if c:
        return c
    if ans == "bad-request":
        return None
    cfg, qs = client_req(req)
    lt = int(cfg.get("lt", "0"))
    qt = None if cfg.get("qt") == "none" else int(cfg.get("qt", "0"))
    groups = ans.split(" | ")
    for q, g in zip(qs, groups):
        f = client_fields(g)
        res = f.get("res", "")
        if f.get("tail") == "0":
            return "bytes beyond the returned length were written into the caller's buffer"
        if f.get("udpsame") == "0":
            return "a re-sent UDP query differs from the first one"
        if res.startswith("err:IoError(") and res not in ("err:IoError(UnexpectedEof)",):
            return "the query failed with %s (only a response, Timeout or a TCP framing error may end it)" % res[4:]
        if res.startswith("err:IoError(UnexpectedEof)") and f.get("ntcp") == "0":
            return "an I/O error ended a UDP-only exchange"
        c = tcp_sent_check(q, f)
        if c:
            return c
        ms = int(f.get("ms", "0"))
        slack = 150
        if ms > lt + slack and q.get("drop", "none") == "none":
            return "timing: the call took %d ms, lifetime %d ms (+%d ms slack)" % (ms, lt, slack)
        ts = [int(x) for x in f.get("t", "-").split(",")] if f.get("t", "-") != "-" else []
        if qt is None and len(ts) > 1:
            return "retries are disabled but %d queries were sent" % len(ts)
        if qt is not None:
            for k, t in enumerate(ts):
                if t < k * qt - 4:
                    return "timing: query %d re-sent after %d ms, before its timeout (%d ms each)" % (k, t, qt)
                if t > k * qt + 25 + 8 * k + 40:
                    return "timing: query %d re-sent only after %d ms (timeout %d ms each)" % (k, t, qt)
            if res == "err:Timeout" and cfg.get("strat") != "tcp" and len(ts) >= 1 and f.get("ntcp", "0") == "0":
                expect = -(-lt // qt)
                if len(ts) < expect - 1:
                    return "timing: only %d queries sent before the lifetime ended (expected about %d)" % (len(ts), expect)
    return None


def encode_name_ref(text):
    """independent reference encoder: canonical wire form of a valid text name (None if not valid)"""
    if text == b".":
        return b"\x00"
    if not text:
        return None
    t = text[:-1] if text.endswith(b".") else text
    out = b""
    for lab in t.split(b"."):
        if not (1 <= len(lab) <= 63):
            return None
        if not all((48 <= c <= 57) or (65 <= c <= 90) or (97 <= c <= 122) or c in (45, 95) for c in lab):
            return None
        if lab[0] == 45 or lab[-1] == 45:
            return None
        out += bytes([len(lab)]) + lab
    out += b"\x00"
    return out if len(out) <= 255 else None


def expected_query(cfg, q, buflen):
    """the bytes (ID zeroed, no prefix) the property demands on the wire; None when the name is invalid"""
    name = b"" if q["qname"] == "-" else bytes.fromhex(q["qname"])
    wire = encode_name_ref(name)
    if wire is None:
        return None
    edns = cfg.get("edns", "off")
    flags = 0x0100 if cfg.get("rd") == "1" else 0
    ar = 0 if edns == "off" else 1
    msg = b"\x00\x00" + flags.to_bytes(2, "big") + (1).to_bytes(2, "big") + b"\x00\x00\x00\x00" + ar.to_bytes(2, "big")
    msg += wire + int(q["qtype"]).to_bytes(2, "big") + int(q["qclass"]).to_bytes(2, "big")
    if edns != "off":
        ver, payload = [int(x) for x in edns.split(":")]
        payload = min(payload, buflen)
        msg += b"\x00" + (41).to_bytes(2, "big") + payload.to_bytes(2, "big") + bytes([0, ver, 0, 0]) + b"\x00\x00"
    return msg


def client_c11_oracle(req, ans):
    """C11 on the wire: decode nothing — compare with an independently built expected query"""
    c = client_oracle(req, ans)
    if c:
        return c
    if ans == "bad-request":
        return None
    cfg, qs = client_req(req)
    for q, g in zip(qs, ans.split(" | ")):
        f = client_fields(g)
        if f.get("res", "").startswith("err:BadParam"):
            continue
        buflen = int(cfg["cfgbuf"]) if q.get("api") == "rrset" else int(q["buf"])
        qq = dict(q)
        if q.get("api") == "rrset":
            qq["qtype"] = "1"
        exp = expected_query(cfg, qq, buflen)
        sent = [x for x in (f.get("udp0"), f.get("tcp0")) if x and x != "-"]
        if exp is None or buflen < 512:
            if sent:
                return "something was sent although the query must be refused (invalid name or buffer below 512 bytes)"
            if not f.get("res", "").startswith("err:"):
                return "an invalid query was not refused with an error"
            continue
        res = f.get("res", "")
        if not sent and res.startswith("err:") and not res.startswith(("err:Timeout", "err:BadParam", "err:IoError")):
            return "a valid query (name accepted by both parsers, buffer of %d bytes) was refused before anything was sent: %s" % (buflen, res[4:60])
        if f.get("udp0", "-") != "-" and bytes.fromhex(f["udp0"]) != exp:
            return "UDP query bytes differ from what was asked: %s" % f["udp0"][:120]
        if f.get("tcp0", "-") != "-":
            t = bytes.fromhex(f["tcp0"])
            if t != len(exp).to_bytes(2, "big") + exp:
                return "TCP query bytes are not <2-byte length><same message>: %s" % f["tcp0"][:120]
    return None


def query_oracle(req, ans):
    """stream `query` (hook-level QueryWriter): same expectation, any buffer size"""
    c = crash_oracle(req, ans)
    if c:
        return c
    if ans in ("length-beyond-buffer", "id-mismatch"):
        return ans
    t = req.split(" ")
    cap, ty, cl, rd, opt, h = int(t[1]), t[2], t[3], t[4], t[5], t[6]
    a = ans.split(" ")
    if a[0] == "not-utf8":
        return None
    cfg = {"rd": rd, "edns": "off" if opt == "-" else opt}
    exp = expected_query(cfg, {"qname": h, "qtype": ty, "qclass": cl}, 65535)
    if a[0] == "ok":
        if "rest=false" in ans:
            return "bytes beyond the message were modified in the caller's buffer"
        n = int(a[1])
        got = bytes.fromhex(a[2]) if a[2] != "-" else b""
        if exp is None:
            return "an invalid name was encoded"
        if got != (len(exp)).to_bytes(2, "big") + exp or n != len(exp) + 2:
            return "encoded query differs from what was asked"
    elif a[0] == "err":
        if exp is not None and cap >= len(exp) + 2:
            return "a valid query that fits the buffer was refused: " + ans[:80]
    return None


def client_proj(req, ans):
    out = []
    for g in client_canon(ans).split(" | "):
        f = client_fields(g)
        res = f.get("res", "")
        out.append("%s nudp~%s ntcp=%s udp0=%s tcp0=%s" % (res, "" if res.startswith("err:Timeout") else f.get("nudp"), f.get("ntcp"),
                                                       f.get("udp0"), f.get("tcp0")))
    return " | ".join(out)


def client_key(req, ans):
    cfg, qs = client_req(req)
    g = ans.split(" | ")
    kinds = []
    for x in g:
        r = client_fields(x).get("res", "?")
        kinds.append(re.sub(r":.*", "", r) if r.startswith("ok") else r)
    return "%s %s %s" % (cfg.get("rt"), cfg.get("strat"), ",".join(kinds))[:80]


def rrset_gate_oracle(req, ans):
    """C07, independent of the model: read the gates straight off the header bytes of the request"""
    c = crash_oracle(req, ans)
    if c:
        return c
    h = req.split(" ")[2]
    if h == "-" or len(h) < 24:
        return None
    flags = int(h[4:8], 16)
    qd = int(h[8:12], 16)
    # "each reported by its specific error carrying the offending value"
    m = re.match(r"err BadQuestionsCount\((\d+)\)", ans)
    if m and int(m.group(1)) != qd:
        return "BadQuestionsCount(%s) reported for a message with QDCOUNT = %d" % (m.group(1), qd)
    m = re.match(r"err BadResponseCode\((\d+)\)", ans)
    if m and (int(m.group(1)) & 0xF) != (flags & 0xF):
        return "BadResponseCode(%s) reported for a message whose header RCODE is %d" % (m.group(1), flags & 0xF)
    if ans.startswith("err MessageTruncated") and not flags & 0x0200:
        return "MessageTruncated reported for a message with TC = 0"
    if ans.startswith("err BadMessageType") and flags & 0x8000:
        return "BadMessageType reported for a response (QR = 1)"
    if not ans.startswith("ok"):
        return None
    if not flags & 0x8000:
        return "a record set was returned for a query (QR=0)"
    if flags & 0x0200:
        return "a record set was returned for a truncated message (TC=1)"
    if qd != 1:
        return "a record set was returned for a message with %d questions" % qd
    if flags & 0xF:
        return "a record set was returned although RCODE=%d" % (flags & 0xF)
    return None


def client_c13_oracle(req, ans):
    """C13 on the implementation alone: the strategy decides which transports are used, and a truncated
    (TC=1) accepted UDP answer — whatever its RCODE — is re-asked over TCP exactly when TCP is allowed.
    The generator puts the one acceptable datagram last in the reply to the first query."""
    c = client_oracle(req, ans)
    if c:
        return c
    if ans == "bad-request":
        return None
    cfg, qs = client_req(req)
    strat = cfg.get("strat")
    for q, g in zip(qs, ans.split(" | ")):
        f = client_fields(g)
        res = f.get("res", "")
        nudp = int(f.get("nudp", "0"))
        ntcp = int(f.get("ntcp", "0"))
        first = q.get("udp", "-").split(";")[0]
        last = first.split(",")[-1]
        if not last.startswith("IIII") or len(last) < 4 + 20:
            continue
        flags = int(last[4:8], 16)
        tc = bool(flags & 0x0200)
        if strat == "tcp":
            if nudp != 0:
                return "strategy Tcp sent %d datagram(s)" % nudp
            continue
        if strat == "notcp":
            if ntcp != 0:
                return "strategy NoTcp opened %d TCP connection(s)" % ntcp
            if res.startswith("ok:") and int(res.split(":")[2][4:8], 16) != flags:
                return "strategy NoTcp did not return the accepted UDP answer as is"
            continue
        if strat == "udp" and res.startswith("ok:"):
            got = int(res.split(":")[2][4:8], 16)
            if tc and ntcp == 0:
                return ("a truncated UDP answer (flags %04x, RCODE %d) was not re-asked over TCP" % (flags, flags & 15))
            if tc and got & 0x0200 and ntcp >= 1:
                pass   # the TCP answer itself may be truncated in other streams; here it never is
            if not tc and ntcp != 0:
                return "an untruncated UDP answer was followed by %d TCP connection(s)" % ntcp
    return None


for _name, _n, _par in [("c11", 480, 8), ("c12", 400, 8), ("c13", 240, 8), ("c14", 400, 8), ("c15", 240, 6), ("c16", 160, 6)]:
    STREAMS[_name] = dict(
        kinds=["client"], quick=_n, thorough=_n * 12, parallel=_par, case_limit_ms=30000,
        canon=client_canon, equiv=client_equiv, proj=client_proj, impl_oracle=client_oracle, recheck=True,
        nontrivial=lambda req, ans: "res=" in ans,
        outcome_key=client_key,
    )

DEFINED_TYPES = {1, 2, 3, 4, 5, 6, 7, 8, 9, 10, 11, 12, 13, 14, 15, 16, 28}   # the 17 decodable types


def known_table(name):
    """`Class::is_defined` / `Type::is_defined` are table look-ups; read the table the translator extracted"""
    import os
    path = os.path.join(os.path.dirname(os.path.dirname(os.path.abspath(__file__))), "lean", "Rsdns", "Generated.lean")
    try:
        m = re.search(r"def %s : Array Nat := #\[([^\]]*)\]" % name, open(path).read())
        vals = [int(x) for x in m.group(1).split(",")]
        return {i for i, v in enumerate(vals) if v != 0}
    except Exception:
        return set()


def parse_seq_view(v):
    """-> (header, questions, records, failed) ; records: dict(marker=[7 fields], name, data)"""
    items = v.split(";") if v else []
    hdr, qs, recs, failed = None, [], [], False
    for it in items:
        if it.startswith("H:"):
            hdr = it
        elif it.startswith("Q:"):
            qs.append(it)
        elif it.startswith("R:"):
            f = it.split(":")
            recs.append(dict(marker=f[1:8], name=f[8], data=":".join(f[9:])))
            if recs[-1]["data"].startswith("E:"):
                failed = True
        elif it.startswith("!E:") or it in ("P", "UB"):
            failed = True
    return hdr, qs, recs, failed


def views_oracle(req, ans):
    """C08 on the implementation alone: the views must agree with one another"""
    c = crash_oracle(req, ans)
    if c:
        return c
    if " | " not in ans:
        return None
    parts = ans.split(" | ", 5)
    d = dict(p.split("=", 1) for p in parts)
    if d["HH"] != d["HI"]:
        return "owned-name views differ between Name and InlineName"
    M, R, HH = parse_seq_view(d["M"]), parse_seq_view(d["R"]), parse_seq_view(d["HH"])
    okc = lambda v: len([r for r in v[2] if not r["data"].startswith("E:")])
    # content agreement on common prefixes
    for a, b, na, nb in ((M, R, "marker", "ref"), (R, HH, "ref", "owned"), (M, HH, "marker", "owned")):
        if a[0] and b[0] and a[0] != b[0]:
            return "header differs between %s and %s views" % (na, nb)
        for x, y in zip(a[2], b[2]):
            if x["marker"] != y["marker"]:
                return "record marker differs between %s and %s views: %s vs %s" % (na, nb, x["marker"], y["marker"])
    for x, y in zip(R[2], HH[2]):
        if not x["name"].startswith("!") and x["name"] != y["name"]:
            return "owner name differs between borrowed and owned views"
    for x, y in zip(R[1], HH[1]):
        if x != y and "!" not in x:
            return "question differs between borrowed and owned views"
    # a view that decodes more never succeeds where a view that decodes less fails
    if okc(R) > okc(M) or (not R[3] and M[3]):
        return "the borrowed-name view got further than the bare-marker view"
    if okc(HH) > okc(R) or (not HH[3] and R[3]):
        return "the owned-name view got further than the borrowed-name view"
    # random access = sequential data (same decoder on the same bytes)
    at = d["AT"].split(";") if d["AT"] else []
    for i, (x, a) in enumerate(zip(HH[2], at)):
        if x["data"].startswith("opt:"):
            continue
        typed, raw = a.split("~", 1)
        if x["data"] != typed:
            return "sequential data of record %d differs from random access: %s vs %s" % (i, x["data"][:60], typed[:60])
    # iterator view = cursor view restricted to defined types / classes
    ip = d["I"].split(" | ")
    if len(ip) == 4 and hexlen(req.split(" ")[1]) <= 65535:
        irecs = [x for x in ip[3].split(";") if x]
        want = []
        for x in HH[2]:
            m = x["marker"]
            t, cl = int(m[2]), int(m[3])
            if x["data"].startswith("E:"):
                break
            if t in known_table("TYPE_KNOWN") and t not in DEFINED_TYPES and cl in known_table("CLASS_KNOWN"):
                break   # OPT / meta types: the iterator stops with UnexpectedType here
            if cl in known_table("CLASS_KNOWN") and t in DEFINED_TYPES:
                want.append("R:%s:%s:%s:%s:%s:%s" % (m[6], x["name"], m[3], m[2], m[4], x["data"]))
        got = [x for x in irecs if x.startswith("R:")]
        for g, w in zip(got, want):
            if g != w:
                return "iterator record differs from the cursor reader's: %s vs %s" % (g[:80], w[:80])
    return None


def nameeq_oracle(req, ans):
    c = crash_oracle(req, ans)
    if c:
        return c
    if ans == "ne-is-not-negation":
        return "NameRef::ne is not the negation of NameRef::eq"
    t = ans.split(" ")
    if t[0] == "ok" and len(t) >= 4:
        n1, n2 = t[2][3:], t[3][3:]
        if not n1.startswith("!") and not n2.startswith("!"):
            same = bytes.fromhex(n1).lower() == bytes.fromhex(n2).lower()
            if (t[1] == "true") != same:
                return "NameRef::eq says %s but the decoded names are %s" % (t[1], "equal" if same else "different")
    return None


def noalloc_canon(ans):
    return re.sub(r"(E:[^ ]*?):ctl:[01]", r"\1", re.sub(r"\?A\d+", "", ans))


def noalloc_oracle(req, ans):
    c = crash_oracle(req, ans)
    if c:
        return c
    m = re.search(r"(\S*)!A(\d+)", ans)
    if m:
        idx = ans.split(" ").index(m.group(0)) if m.group(0) in ans.split(" ") else -1
        ops = req.split(" ")[2:]
        op = ops[idx] if 0 <= idx < len(ops) else "?"
        return "allocation-free call `%s` touched the allocator %s time(s) (outcome %s)" % (op, m.group(2), m.group(1))
    if "ok:ctl:0" in ans:
        return "allocation meter is broken: reading a heap Name did not allocate"
    return None


STREAMS.update({
    "views": dict(
        kinds=["views"], quick=20000, thorough=600000,
        canon=ident, proj=lambda req, ans: re.sub(r"E:[A-Za-z]+(\([^)]*\))?", "E", ans), impl_oracle=views_oracle,
        nontrivial=lambda req, ans: "R:" in ans,
        outcome_key=lambda req, ans: "views:" + ("fail" if "!E:" in ans.split(" | AT=")[0] else "complete"),
    ),
    "noalloc": dict(
        kinds=["noalloc", "noalloci"], quick=30000, thorough=800000,
        canon=noalloc_canon, proj=lambda req, ans: noalloc_canon(ans), impl_oracle=noalloc_oracle,
        nontrivial=lambda req, ans: len(ans.split(" ")) >= 3,
        outcome_key=lambda req, ans: req.split(" ")[0] + ":" + ("E" if "E:" in ans else "ok") + (":ctl" if "ctl" in ans else ""),
    ),
    "roundtrip": dict(
        kinds=["rt", "enc"], quick=30000, thorough=800000,
        canon=ident, proj=proj_kind, impl_oracle=roundtrip_oracle,
        nontrivial=lambda req, ans: hexlen(req.split(" ")[-1]) >= 2,
        outcome_key=lambda req, ans: req.split(" ")[0] + ":" + kind_of(ans),
    ),
    "xmark": dict(
        kinds=["xmark"], quick=15000, thorough=500000,
        canon=ident, proj=proj_tokens_ok_exact, impl_oracle=reader_oracle,
        nontrivial=lambda req, ans: len(ans.split(" ")) >= 2,
        outcome_key=reader_key,
    ),
    "rdata": dict(
        kinds=["rdata"], quick=30000, thorough=1000000,
        canon=ident, proj=proj_ok_exact_err_any, impl_oracle=crash_oracle,
        nontrivial=lambda req, ans: not ans.startswith("err EndOfBuffer"),
        outcome_key=lambda req, ans: req.split(" ")[1] + ":" + kind_of(ans),
    ),
    "reader": dict(
        kinds=["reader"], quick=20000, thorough=600000,
        canon=ident, proj=proj_tokens_ok_exact, impl_oracle=reader_oracle_conf,
        nontrivial=lambda req, ans: len(ans.split(" ")) >= 3,
        outcome_key=reader_key,
    ),
    "readerx": dict(
        kinds=["reader"], quick=20000, thorough=600000,
        canon=ident, proj=proj_tokens_ok_exact, impl_oracle=reader_oracle,
        nontrivial=lambda req, ans: len(ans.split(" ")) >= 3,
        outcome_key=reader_key,
    ),
    "iter": dict(
        kinds=["iter"], quick=15000, thorough=500000,
        canon=ident, proj=lambda req, ans: re.sub(r"E:[A-Za-z]+(\([^)]*\))?", "E", ans), impl_oracle=crash_oracle,
        nontrivial=lambda req, ans: ans.startswith("H:") and len(ans) > 40,
        outcome_key=lambda req, ans: "iter:" + ("err" if ans.startswith("err") else ("E" if "E:" in ans else "ok")),
    ),
    "rrset": dict(
        kinds=["rrset"], quick=15000, thorough=500000,
        canon=ident, proj=proj_kind, impl_oracle=crash_oracle,
        nontrivial=lambda req, ans: not ans.startswith("err EndOfBuffer"),
        outcome_key=lambda req, ans: req.split(" ")[1] + ":" + kind_of(ans),
    ),
    "nameeq": dict(
        kinds=["nameeq"], quick=20000, thorough=800000,
        canon=ident, proj=proj_ok_exact_err_any, impl_oracle=crash_oracle,
        nontrivial=lambda req, ans: not ans.startswith("err EndOfBuffer"),
        outcome_key=lambda req, ans: kind_of(ans) + (":" + ans.split(" ")[1] if ans.startswith("ok") else ""),
    ),
    "text": dict(
        kinds=["check", "checklabel", "parse", "wname"], quick=30000, thorough=800000,
        canon=ident, proj=proj_kind, impl_oracle=crash_oracle,
        nontrivial=lambda req, ans: hexlen(req.split(" ")[-1]) >= 2,
        outcome_key=lambda req, ans: req.split(" ")[0] + ":" + kind_of(ans),
    ),
    "cmp": dict(
        kinds=["cmp", "eqstr"], quick=30000, thorough=800000,
        canon=strip_hash_marks, proj=lambda req, ans: strip_hash_marks(ans), impl_oracle=cmp_oracle,
        nontrivial=lambda req, ans: ans != "badname",
        outcome_key=lambda req, ans: req.split(" ")[0] + ":" + ans.split(" ")[0] + ":" + (ans.split(" ")[1] if " " in ans else ""),
    ),
    "cfg": dict(
        kinds=["cfg", "rtype"], quick=20000, thorough=400000,
        canon=ident, proj=lambda req, ans: ans, impl_oracle=cfg_oracle,
        nontrivial=lambda req, ans: len(req.split(" ")) >= 4 or req.startswith("rtype"),
        outcome_key=lambda req, ans: "rtype" if req.startswith("rtype") else "ctor=%s calls=%s st=%s" % (req.split(" ")[1].split(":")[0], min(len(req.split(" ")) - 2, 6),
                                                           (re.search(r"st=(\d)", ans) or [None, "?"])[1]),
    ),
    "query": dict(
        kinds=["query"], quick=20000, thorough=500000,
        canon=ident, proj=proj_ok_exact_err_any, impl_oracle=crash_oracle,
        nontrivial=lambda req, ans: hexlen(req.split(" ")[-1]) >= 1,
        outcome_key=lambda req, ans: kind_of(ans),
    ),
})

def truth_oracle(req, ans):
    """C02: the transcript of the real decoders against the transcript written from the semantic message"""
    c = crash_oracle(req, ans)
    if c:
        return c
    t = req.split(" ")
    exp = [x for x in t[2:] if x.startswith("exp=")]
    if not exp:
        n = len(t[1]) // 2 if len(t) > 1 else 0
        if n > 65535:
            # C02/C01: MessageReader takes messages of at most 65535 bytes and says so for longer buffers
            parts = ans.split(" | ")
            if len(parts) < 2 or parts[1] != "S=!E:MessageTooLong(%d)" % n:
                return "a buffer of %d bytes was not refused with MessageTooLong(%d): %s" % (n, n, ans[:100])
        return None
    want = exp[0][4:]
    got = ans.replace(" ", "")
    if got == want:
        return None
    names = ["flag accessors", "sequential reader", "iterator header", "iterator question()", "iterator questions", "iterator records"]
    for i, (a, b) in enumerate(zip(want.split("|"), got.split("|"))):
        if a != b:
            ai, bi = a.split(";"), b.split(";")
            for j, (x, y) in enumerate(zip(ai, bi)):
                if x != y:
                    return "%s, item %d: decoded %s, encoded %s" % (names[min(i, 5)], j, y[:120], x[:120])
            return "%s: %d items decoded, %d encoded" % (names[min(i, 5)], len(bi), len(ai))
    return "transcripts differ in length"


def truth_key(req, ans):
    s = ans.split(" | ")
    if len(s) < 2 or not s[1].startswith("S=H:"):
        return "truth:other"
    items = s[1][2:].split(";")
    h = items[0].split(":")
    shape = "".join("1" if int(x) else "0" for x in h[3:7])
    kinds = set()
    for it in items:
        if it.startswith("R:"):
            d = it.split(":")[9]
            kinds.add("opt" if d == "opt" else ("raw" if d == "raw" else "typed"))
    return "shape(q,an,ns,ar)=%s kinds=%s" % (shape, "+".join(sorted(kinds)) or "-")


import spec_c09

STREAMS.update({
    "truth": dict(
        kinds=["truth"], quick=20000, thorough=600000,
        canon=ident, proj=lambda req, ans: ans, impl_oracle=truth_oracle,
        nontrivial=lambda req, ans: ";R:" in ans,
        outcome_key=truth_key,
    ),
    "seekhist": dict(
        kinds=["seekhist"], quick=30000, thorough=1000000,
        canon=ident, proj=lambda req, ans: proj_tokens_ok_exact(req, ans), impl_oracle=lambda req, ans: reader_oracle_conf(req, ans.replace(" #L# ", " ")) or spec_c09.oracle(req, ans),
        nontrivial=lambda req, ans: "seek" in req and " ok " in ans,
        outcome_key=spec_c09.classify,
    ),
})


def typecheck_special(ctx):
    """C19: the compiler's verdict. `cargo check` of harness/typecheck against /repo's working tree."""
    import os, shutil, time
    d = os.path.join(ctx["ROOT"], "harness", "typecheck")
    lock = os.path.join(d, "Cargo.lock")
    if not os.path.exists(lock):
        shutil.copy(os.path.join(ctx["REPO"], "Cargo.lock"), lock)
    env = dict(ctx["env"])
    env.pop("CARGO_TARGET_DIR", None)
    t0 = time.time()
    rc, out, err = ctx["run"](["cargo", "check", "--offline"], cwd=d, timeout=3600, env=env)
    cmd = "cd harness/typecheck && cargo check --offline"
    if rc == 0:
        # the same assertions with rsdns' optional `socket2` feature (it adds a field to ClientConfig)
        rc, out, err = ctx["run"](["cargo", "check", "--offline", "--features", "socket2"], cwd=d, timeout=3600, env=env)
        cmd += " --features socket2"
    src = open(os.path.join(d, "src", "lib.rs")).read()
    per_async = src.count("send(c.query_rrset") + 2 + 2 + 1   # typed + raw + constructor + object(2) + spawnable
    n_assert = 2 * (3 * per_async + 3 + 2)   # both feature sets
    res = dict(name="typecheck", evaluations=n_assert, distinct_nontrivial=n_assert, wall_s=round(time.time() - t0, 1),
               samples=[dict(assertion="send(c.query_rrset::<Txt>(name, Class::IN)) for clients::{tokio,async_std,smol}::Client, name: &'a str"),
                        dict(assertion="is_send::<Client>(); is_sync::<Client>() for all four clients"),
                        dict(assertion="fn spawnable(c: Client, name: String) -> impl Future + Send + 'static")],
               failures=[])
    if rc != 0:
        errs = [l for l in err.split("\n") if l.startswith("error")]
        first = err[err.find("error"):][:3000] if "error" in err else err[-3000:]
        res["failures"].append(dict(id="typecheck", link="impl-vs-spec",
                                    request=cmd,
                                    why="rustc rejects a Send/Sync assertion (or the crate no longer compiles): %s" % (errs[0] if errs else "?"),
                                    rustc=first))
    return res


TRUSTED_BASE = [
    "Lean 4.33.0 kernel (thorough tier: leanchecker re-checks the .olean independently)",
    "axioms: at most propext, Classical.choice, Quot.sound (audited per theorem on every run with #print axioms); no sorry/admit/own axioms/native_decide/bv_decide",
    "hand-written Lean model lean/Rsdns/Model/*.lean — tied to /repo by the correspondence streams of this run (counts below) and by tools/extract.py, which regenerates Rsdns/Generated.lean (constants, masks, bit getters, tables) from the Rust source on every run",
    "the compiled Lean driver evaluates the same definitions the theorems are about (Lean compiler trusted)",
    "harness: generators, canonical printers, guard-page buffers, checked build profile (debug assertions, overflow checks, std unsafe-precondition checks)",
    "rustc/LLVM compile the crate as the language defines",
]

DEFAULT_RULE = ("cases are generated from one SplitMix64 state per (stream, seed, index): structured mostly-valid inputs, "
                "boundary-directed recipes derived from the model's guards, mutated and random inputs, corpus first; "
                "distinct = distinct request lines (blake2b); non-trivial = reaches past the first bounds test "
                "(buffer ≥ 2 bytes and the outcome is not EndOfBuffer at the first byte)")

HOOK_COMMITS = ["7a8c9dd"]
FIX_COMMITS = ["67bcb4a", "e9d4c57", "08bccf3", "cbd1cfa", "e306b44", "49be206"]

NOT_APPLICABLE = {}

PROPS = {
    "C01": dict(
        level="proof", module="Rsdns.Props.C01", modules=["Rsdns.Props.C01", "Rsdns.Props.PinCursor", "Rsdns.Props.PinLabels"],
        technique="Lean 4 theorems (no panic / no out-of-buffer access for every decoding entry point, well-founded termination, step bound) + differential correspondence with crash/guard-page oracles",
        level_text="Theorems over the Lean model for all byte strings: names (read/skip/iterate), NameRef::eq, all 17 RDATA decoders "
                   "return a value or an error from any in-buffer cursor; every MessageReader call history is free of out-of-buffer access "
                   "(reader_no_over_read, any markers); along every history that calls header() first and makes each data call with the "
                   "marker just returned, every MessageReader call returns a value or an error — no debug assertion, no checked-counter "
                   "overflow/underflow, no unchecked read outside the buffer (reader_safe; invariant Sane = cursor view inside the message + "
                   "read<=total<=65535 for every counter + cursor at the pending marker's RDATA); RecordSet::<D>::from_msg for every D "
                   "(rrset_safe) and the whole iterator API — MessageIterator::new, questions(), question(), records() drained — "
                   "(iter_safe) return values or errors on every byte string; "
                   "termination by well-founded recursion with an explicit step bound. Correspondence on six decode streams with the "
                   "checked build profile, guard pages and a watchdog as implementation-side oracles.",
        level_note="Trusted: Lean kernel; hand-written model (validated by correspondence each run); harness oracles (abort = unsafe "
                   "precondition / SIGSEGV at a guard page; watchdog). Not modelled: allocator failure, stack depth.",
        streams=[dict(name="name", quick=15000), dict(name="rdata", quick=15000), dict(name="reader", quick=12000),
                 dict(name="iter", quick=8000), dict(name="rrset", quick=8000), dict(name="nameeq", quick=8000)],
        explanation="C01: safety theorems + six correspondence streams; any panic/abort/timeout/out-of-message slice of the "
                    "implementation is a violation independent of the model.",
    ),
    "C04": dict(
        level="proof", module="Rsdns.Props.C04", modules=["Rsdns.Props.C04", "Rsdns.Props.C04Local", "Rsdns.Props.PinCursor"],
        technique="Lean 4 theorems (RDLENGTH exactness for all 17 decoders, raw access, next-record position, independence of every byte behind the RDATA) + differential correspondence",
        level_text="For every message, cursor and announced RDLENGTH: a successful typed read consumed exactly RDLENGTH bytes and "
                   "closed its window; raw access returns exactly msg[p..p+rdlen); the next header starts right after; the outcome of a typed "
                   "read (value or error, and the cursor left) is the same on any two messages that agree on their first p+RDLENGTH "
                   "bytes — no byte of a following record can influence it (rdata_local, data_local; Props/C04Local.lean). "
                   "Correspondence: every type with RDLENGTH off by -3..+3 and parseable neighbours.",
        level_note="Trusted: Lean kernel; model of cursor.rs window discipline and rfc1035.rs/rfc3596.rs decoders (validated by the "
                   "`rdata` and `reader` streams each run).",
        streams=[dict(name="rdata"), dict(name="reader", quick=8000),
                 # the iterator API reads the "next record" too: ground truth of where every record starts
                 dict(name="truth", quick=5000, thorough=100000), dict(name="views", quick=5000, thorough=100000)],
        explanation="C04: rdata_exact / raw_exact / next_after_data / rdata_local / data_local theorems; stream `rdata` drives read_rr_data::<D> for the 17 D "
                    "through the hook with RDLENGTH deltas.",
    ),
    "C05": dict(
        level="proof", module="Rsdns.Props.C05", modules=["Rsdns.Props.C05", "Rsdns.Props.PinNames"],
        technique="Lean 4 theorems (parsers = validator = wire encoder on every string; encode→decode returns the canonical spelling; every decoded name is valid and re-parses to itself) + round-trip oracle on real code",
        level_text="Proved for all strings and all messages: both parsers accept exactly what check_name_bytes accepts, never panic, "
                   "and yield the canonical spelling (parse_agree); the wire encoder accepts exactly the same strings "
                   "(encoder_accepts_valid, valid_encodes given room for 255 octets); whatever the encoder writes is at most 255 octets "
                   "and decodes, with either name type, to the canonical spelling, the decoder stopping right behind it "
                   "(encode_decode); every decoded name passes the validator and both parsers return it unchanged (decode_valid, "
                   "decode_reparse). The text→labels splitting loop shared by validator and encoder is proved to be a fold over the "
                   "dot-separated labels (Lemmas/Encode.lean). On the implementation the `roundtrip` oracle checks the same three "
                   "statements with an independent encoder.",
        level_note="Complete for the model. Trusted: Lean kernel; model of utils.rs/writer.rs/name.rs/inline_name.rs validated by the "
                   "`text` and `roundtrip` streams.",
        streams=[dict(name="roundtrip"), dict(name="text", quick=20000), dict(name="name", quick=10000),
                 dict(name="c11", impl_oracle=client_c11_oracle)],
        explanation="C05: parse_agree, encoder_accepts_valid, valid_encodes, encode_decode, decode_valid, decode_reparse, check_total, "
                    "decoded_len; oracle: decode→re-parse must succeed with an equal name, encode→decode must return the canonical "
                    "spelling within 255 octets, encoder and parsers must accept the same strings.",
    ),
    "C02": dict(
        level="proof", module="Rsdns.Props.C02", modules=["Rsdns.Props.C02", "Rsdns.Props.C02Message"],
        technique="Lean 4 theorems `decode_wellformed` and `iter_decode_wellformed` (both reader APIs return, for ANY well-formed message and every legal name layout, exactly the encoded header, questions and records) + item-level decode theorems + ground-truth transcript written from the semantic message",
        level_text="Proved for every well-formed message (specification `MsgAt`: any id/flags/counts, any number of questions, records "
                   "of the 17 data types, OPT and unknown types/classes in any section, every name — owners and names inside RDATA — in "
                   "any legal mix of in-place labels and backward compression pointers): the linear pass `Reader.pass` (the function the "
                   "driver prints and the correspondence compares with the real MessageReader) returns exactly the encoded header, "
                   "questions and records — owner, TYPE, CLASS, TTL, RDLENGTH, offsets, section by the running counters, every RDATA "
                   "field of the 17 formats, the OPT fields, raw bytes of unknown types — in wire order, ends without error and reports "
                   "nothing else (no question, no record left; a further record call answers ReaderDone). Item-level theorems: "
                   "flags_layout (RFC 1035 bit fields of the source-extracted getters), opt_layout (RFC 6891), header_fields, "
                   "question_decode, record_header_decode (all three header calls), rdata_decode (17 formats). On the implementation, "
                   "well-formed messages are generated from a semantic description and the transcripts of MessageReader and "
                   "MessageIterator are compared field by field with the transcript written from the description.",
        level_note="Both reader APIs are covered: `decode_wellformed` (MessageReader) and `iter_decode_wellformed` (MessageIterator: "
                   "new, question, questions, records — exactly the records of the 17 data types with a defined CLASS, OPT and unknown "
                   "types/classes passed over in silence; hypothesis: QTYPE-only codes 252..255 do not occur as record types). Messages "
                   "are at most 65535 bytes (MessageReader::new refuses larger ones). Trusted: Lean kernel; model of reader.rs/records.rs (validated "
                   "by the `truth`/`views` streams); tools/extract.py for the bit expressions; the generator's encoder "
                   "(harness/src/streams/msggen.rs) for the ground truth.",
        streams=[dict(name="truth"), dict(name="views", quick=8000)],
        explanation="C02: decode_wellformed, iter_decode_wellformed (Props/C02Message.lean, non-vacuity examples included), flags_layout, opt_layout, "
                    "header_fields, question_decode, record_header_decode, rdata_decode; stream `truth` + `views`.",
    ),
    "C09": dict(
        level="proof", module="Rsdns.Props.C09", modules=["Rsdns.Props.C09", "Rsdns.Props.C09History"],
        technique="Lean 4 invariant + refinement proof over call histories of unbounded length, for EVERY message (`reader_follows_pass`: along every history in the documented order the reader is in a situation of the skip pass over the message as far as that pass gets; calls reaching the item that cannot be skipped fail and latch; `seek_when_documented`; error latch; offsets grow) + reference automaton over one linear pass on the real code",
        level_text="Proved for all states / all conforming histories of unbounded length: `done` is sticky and every failing sequential "
                   "call latches it (a seek answered RecordsSectionOffsetUnknown changes nothing); an exhausted reader reports "
                   "ReaderDone; the tracker's counters and lazily learned offsets satisfy a coupling invariant with the layout of one "
                   "linear pass (learned offsets are the true section starts, record headers are attributed to the section of the "
                   "current index, a seek to a known section lands on its first record or the next non-empty one); and the documented "
                   "seek criterion — read up to the last record of the first non-empty preceding section, or beyond — implies the "
                   "offset is known (doc_known), hence seek succeeds (seek_known). On the implementation a specification automaton "
                   "replays each generated history against ONE linear pass of the same message on a fresh reader and checks every "
                   "returned item, every count and every seek outcome.",
        level_note="Props/C09History.lean folds everything into one induction over `Reader.run`, for EVERY byte string that new() + "
                   "header() accept (reader_follows_pass): layoutOf is the skip pass over the message as far as it gets (passNq "
                   "questions, passNr records — PassUpto; the item behind them, if the counts announce one, cannot be skipped — Fails; "
                   "layout_exists); along every history in the documented order every call returns a value or an error (C01's invariant "
                   "Sane discharges NoPanic) and the reader is always dead (sticky), inside the questions at the pass position, between "
                   "records at the index of its counters (never behind the item that cannot be skipped), in the middle of the record "
                   "whose marker it returned, or holding the marker of the record that cannot be skipped, whose data no call can consume "
                   "(every data call fails and latches); question / record / seek calls that run into that item fail and latch "
                   "(question_fail, bad_header, skipSectionImpl_fail, seekImpl_fail); only sections in front of it ever get a known "
                   "offset (Reached); seek succeeds whenever the documented criterion holds and lands on the first record of the "
                   "section (or the next non-empty one); record offsets grow. Every well-formed message is skippable entirely "
                   "(passAll_of_msgAt), with a concrete instance as non-vacuity example. Trusted: Lean kernel; model of "
                   "reader.rs/section_tracker.rs (validated by `seekhist`/`reader`); tools/spec_c09.py.",
        streams=[dict(name="seekhist"), dict(name="reader", quick=8000)],
        explanation="C09: done_sticky, *_error_latches, seek_error, seek_known, exhausted_reports_done, header_attribution, "
                    "data_advances, last_question, seek_index, seek_lands, doc_known, learned_offsets_true, pair_follows_pass; "
                    "C09History: reader_follows_pass, sit_step, run_conforming, run_documented, seek_when_documented, sit_after_header, sane_after_header, passAll_of_msgAt, offsets_grow; stream `seekhist`.",
    ),
    "C06": dict(
        level="proof", module="Rsdns.Props.C06", modules=["Rsdns.Props.C06", "Rsdns.Props.C06Refines", "Rsdns.Props.PinRRSet"],
        technique="Lean 4 refinement proof: RecordSet::<D>::from_msg EQUALS the CNAME-chain specification on every well-formed NOERROR response (rrset_refines), plus selection soundness over arbitrary bytes + independent CNAME-chain reference as ground truth on the real code",
        level_text="Proved (Props/C06Refines.lean, rrset_refines): for every well-formed response (MsgAt: any legal compression layout, any "
                   "letter case, any records in the three sections, any CNAME graph) with QR set, TC clear, one question and extended "
                   "RCODE 0, and every record type D, from_msg returns exactly what the specification chainS (Spec/ChainSpec.lean: "
                   "filter the answer records by owner==name (ASCII case folded), type and class; else consume the first CNAME of the "
                   "name and continue at its target) yields: the final name, the question's class, the minimum TTL, the data of exactly "
                   "the matching answer records in message order; NoAnswer exactly when the chain ends without such records (loops and "
                   "dangling targets included). Proved for ARBITRARY bytes (Props/C06.lean): whatever from_msg returns was selected by "
                   "those rules from the answer section, at most #answers+1 rounds. On the implementation a reference computed by the "
                   "generator on the semantic message is the ground truth.",
        level_note="rrset_refines composes: extractRRSet_exact (one pass = filter, TTL = min fold), extractCname_exact (remove-first), "
                   "flatten_refines (the loop = chain; the fuel-exhausted branch is unreachable), fromMsgPrefix_decode (what "
                   "the_question_ref / read_answer_headers / read_opt return on MsgAt), chain_semantic (NameRef::eq on references to "
                   "legal names = == on decoded texts via C08.nameref_eq_decoded; name_ref_at of a CNAME = its target; record_data_at "
                   "= the RDATA value via C02.rdata_decode). Non-vacuity: the theorem is instantiated on a concrete 35-byte response "
                   "and the specification is evaluated on a fork/loop example (`example`s by `decide`). Trusted: Lean kernel; model of "
                   "record_set.rs (validated by the `rrset` stream each run).",
        streams=[dict(name="rrset", impl_oracle=rrset_truth_oracle, quick=30000)],
        explanation="C06: rrset_refines (Props/C06Refines.lean); extractRRSet_sound, extractCname_sound, flatten_sound, readAnswerHeaders_section, "
                    "rrset_from_answers (Props/C06.lean); stream `rrset` with CNAME chains/forks/loops/dangling targets, case variants, "
                    "decoys in other sections/classes/types.",
    ),
    "C07": dict(
        level="proof", module="Rsdns.Props.C07", modules=["Rsdns.Props.C07", "Rsdns.Props.PinRRSet"],
        technique="Lean 4 theorems over arbitrary bytes (gates of from_msg, specific errors, bit-level meaning of QR/TC/extended RCODE) + header-byte oracle",
        level_text="For ARBITRARY byte strings: from_msg = ok implies QR=1, TC=0, QDCOUNT=1 and extended RCODE=0 (theorem rrset_gates); "
                   "each violated gate yields its specific error with the offending value; QR/TC/RCODE getters are proved to be the RFC "
                   "bit fields of the generated (source-extracted) expressions. Oracle: gates read straight from the request's header bytes.",
        level_note="`extended RCODE` = header RCODE | (ext << 4) with ext from the first OPT record after the answer section, as the code "
                   "does. Trusted: Lean kernel; model of record_set.rs/reader.rs (validated by the `rrset` stream); tools/extract.py.",
        streams=[dict(name="rrset", impl_oracle=rrset_truth_oracle, quick=25000)],
        explanation="C07: rrset_gates + rrset_err_* theorems; stream `rrset` covers all gate combinations and OPT placements.",
    ),
    "C18": dict(
        level="proof", module="Rsdns.Props.C18", modules=["Rsdns.Props.C18", "Rsdns.Props.C18Str"],
        technique="Lean 4 theorems (equality = equality of case-folded text, order = lexicographic order of it, hash feed = it, name == &str ⇔ the string parses to an equal name) + differential correspondence with a recording hasher",
        level_text="For all byte strings as name texts: eq ↔ folded texts equal; eq is an equivalence; cmp is the lexicographic order of "
                   "the folded text (hence eq ↔ cmp = Equal, antisymmetric, transitive, total); equal names feed the hasher identical "
                   "bytes; conversions preserve the text. Correspondence: Name and InlineName, ==, cmp, partial_cmp, Hash through a "
                   "recording hasher, From both ways, == &str.",
        level_note="Props/C18Str.lean, eqstr_parse: for every name value n (canonical text, as both parsers and decoders produce it — "
                   "parsed_is_canonical) and ANY string s: n == s  ⇔  s parses (either type) to a name equal to n; proved via: label "
                   "and name validity are invariant under ASCII case (checkLabel_congr, check_congr), parsers = validator + canonical "
                   "spelling (C05.parse_agree), and a case analysis of the root / trailing-dot special cases of PartialEq<&str> "
                   "(Lemmas/EqStr.lean). Trusted: Lean kernel; model of the Eq/Ord/Hash impls (validated by `cmp` stream).",
        streams=[dict(name="cmp")],
        explanation="C18: eq_iff_fold, eq_iff_cmp, cmp_is_lex, cmp_swap, cmp_trans, hash_congr, conv_text; C18Str: eqstr_parse, parsed_is_canonical.",
    ),
    "C11": dict(
        level="proof", module="Rsdns.Props.C11",
        technique="Lean 4 theorems (byte-exact output of the serializer `query_bytes`, it never leaves its buffer / never panics, refusal before send, payload clamp) + independent reference encoder as oracle on the real clients' wire bytes",
        level_text="Proved for all inputs and buffer sizes: whatever QueryWriter::write produces is, byte for byte, length prefix ++ "
                   "header(id, flags = RD only, QDCOUNT 1, ARCOUNT 1 iff EDNS) ++ wire form of the asked name ++ QTYPE ++ QCLASS (++ OPT "
                   "with the given version and payload size) (query_bytes; with C05.encode_decode the name part decodes to the "
                   "canonical spelling of what was asked); it never writes outside its buffer and never panics; an unbuildable query "
                   "is refused before any socket operation; the OPT payload is min(configured, buffer). That the four clients put "
                   "exactly these bytes on the wire is decided by an independent reference encoder (tools/props.py: expected_query) "
                   "against every query sent over loopback UDP/TCP and against the hook-level encoder with all buffer sizes.",
        level_note="The serializer is proved; the glue around it in the four clients (prepare_message, which bytes go to which "
                   "socket) is modelled in Model/Client.lean and tied to the code by the `c11` correspondence. Trusted: Lean kernel; "
                   "loopback delivers what was sent; the scripted server's log. \"As configured\": for every sequence of "
                   "ClientConfig builder calls the recursion flag, the EDNS setting and the buffer size are those of the last call "
                   "that sets them (Props/C13Config.lean: rd_last_set, edns_last_set, buf_last_set; `cfg` stream on the real builder).",
        modules=["Rsdns.Props.C11", "Rsdns.Props.C13Config"],
        streams=[dict(name="query", impl_oracle=query_oracle), dict(name="c11", impl_oracle=client_c11_oracle),
                 dict(name="cfg", quick=10000)],
        explanation="C11: query_bytes, writer_safe, refused_before_send, payload_clamp; C13Config: rd_last_set, edns_last_set, "
                    "buf_last_set; streams `query` (hook, buffers of every size, guard pages), `c11` (four real clients × UDP/TCP × "
                    "EDNS/buffer combinations, eight builder orders) and `cfg`.",
    ),
    "C12": dict(
        level="proof", module="Rsdns.Props.C12",
        technique="Lean 4 theorems about the UDP receive filter and loop (soundness, first match, junk skipped) + four real clients against scripted decoy sequences",
        level_text="For all datagram sequences: an accepted datagram has the query's ID and exactly one question equal to the asked one "
                   "(case-insensitively); the loop returns the first such datagram with exactly its bytes and skips everything else. "
                   "The two tests of the filter (ID; type && class && name) are regenerated from udp_receive_loop of BOTH client sources "
                   "on every run and evaluated by the model (async_filter_is_std, filter_closed_form). "
                   "The four real clients are run against scripted decoys over loopback and compared with the model.",
        level_note="Datagrams longer than the receive buffer arrive truncated (kernel; assumed). Trusted: Lean kernel; model of "
                   "udp_receive_loop (std + template) validated by the `c12` stream.",
        streams=[dict(name="c12")],
        explanation="C12: accept_sound, loop_first, junk_ignored, loop_complete, reject_short, async_filter_is_std, filter_closed_form.",
    ),
    "C13": dict(
        level="proof", module="Rsdns.Props.C13",
        technique="Lean 4 theorems about the transport decision (predicates extracted from both client sources) + four real clients with server-side traces",
        level_text="Proved: with Tcp no datagram is sent; with NoTcp no connection is opened and a truncated answer is returned as is; "
                   "with Udp a TC answer leads to exactly one TCP exchange whose result is returned. udp_first/tcp_allowed are "
                   "translated from clients/std/client_impl.rs and templates/async_client_impl.rs on every run.",
        level_note="Trusted: Lean kernel; tools/extract.py; the scripted server's trace (datagrams seen, connections accepted). "
                   "\"The strategy\" is the one the configuration carries: Props/C13Config.lean proves, for every sequence of "
                   "ClientConfig builder calls (two constructors, eight setters; model Rsdns/Model/Config.lean, validated by the `cfg` "
                   "stream against the real builder), that each field holds the argument of the last call that sets it — a change of "
                   "name server, to either address family, touches nothing but the name server and a wildcard bind address — and "
                   "lifts tcp_only_sends_no_datagram / notcp_never_connects to the configuration built.",
        modules=["Rsdns.Props.C13", "Rsdns.Props.C13Config"],
        streams=[dict(name="c13", impl_oracle=client_c13_oracle), dict(name="cfg")],
        explanation="C13: strategy_table, tcp_only_sends_no_datagram, notcp_never_connects, udp_fallback; C13Config: strat_last_set, "
                    "setNs_frame, setNs_bind, built_notcp_never_connects, built_tcp_only; streams `c13` (eight builder orders) and `cfg`.",
    ),
    "C14": dict(
        level="proof", module="Rsdns.Props.C14",
        technique="Lean 4 theorems over segment streams (closed form of TCP framing, segmentation invariance) + four real clients against scripted segmentations",
        level_text="Proved for all segmentations, lengths and buffer sizes: the result of tcp_exchange is a function of the concatenated "
                   "bytes and of close/stall only: exactly the N announced bytes, BufferTooShort(N) without reading the body, EOF on early "
                   "close, never a short success. Real clients: N around buffer limits, splits inside the prefix, 1-byte segments, early "
                   "close at every position class, trailing bytes; guard-paged caller buffer.",
        level_note="Assumed: read_exact/write_all of std, tokio, async-std, smol satisfy their documented contracts. The prefix value "
                   "(u16::from_be_bytes) and the bound test are regenerated from tcp_exchange of both client sources and evaluated by the "
                   "model (async_framing_is_std, framing_closed_form).",
        streams=[dict(name="c14"), dict(name="c16")],
        explanation="C14: readExact_spec, tcp_closed_form, tcp_split_invariant, tcp_exact, tcp_short_buffer, tcp_early_close, async_framing_is_std, framing_closed_form.",
    ),
    "C15": dict(
        level="proof", module="Rsdns.Props.C15",
        technique="Lean 4 theorems about the clients' deadline logic over an idealised clock (runtime timers assumed) + timing oracle on the four real clients",
        level_text="PARTIAL proof — the theorems are about the clients' deadline logic over an idealised clock; that the runtimes' timers, "
                   "the kernel's socket timeouts and the scheduler keep real time is assumed and watched by the timing oracle. "
                   "Theorems about the modelled deadline machine: the UDP exchange ends by the lifetime; queries are re-sent at 0,T,2T,…; "
                   "non-matching datagrams cannot end it with anything but Timeout; retries off ⇒ one datagram; the blocking client never "
                   "asks for a zero socket timeout. Real clients: silence, decoys at chosen offsets, paced floods across every "
                   "per-attempt deadline, delayed answers, stalled and slow-drip TCP; oracle on result kind, duration ≤ lifetime + 150 ms, "
                   "retransmission times (timing verdicts must repeat twice).",
        level_note="`other`: the truth lives partly in timers and schedulers. ASSUMED: timeout(d, fut) fires at d; SO_RCVTIMEO bounds a "
                   "blocking recv; monotone clocks. NOT exhibited by the model: executor starvation, kernel buffer overflow, timer "
                   "granularity.",
        streams=[dict(name="c15")],
        explanation="C15: ends_by, sends_schedule, no_retries, junk_only_times_out, std_timeout_never_zero.",
    ),
    "C16": dict(
        level="proof", module="Rsdns.Props.C16",
        technique="Lean 4 theorems about the state a client carries between queries (internal buffer, socket queue) + query histories on the four real clients",
        level_text="PARTIAL proof — the theorems are about the state a client carries between queries (internal buffer, what the socket "
                   "may still deliver); the sockets themselves are modelled as scripts. "
                   "Theorems: take_buf is sound from any buffer state (also the one a dropped future leaves); what query_rrset parses is "
                   "exactly the response, independent of buffer junk; the typed query equals from_msg on the raw query's bytes; a datagram "
                   "handed out always carries the current query's ID and question. Real clients: histories of 2–5 queries mixing answered, "
                   "timed out, invalid, malformed, oversized, late duplicates, dropped futures; results compared with the model.",
        level_note="`other`: sockets and the async runtimes are assumed; ID collisions between queries (2^-16) are outside the statements.",
        streams=[dict(name="c16")],
        explanation="C16: take_buf_sound, junk_blind, typed_is_raw, stale_ignored, accepted_has_current_id.",
    ),
    "C20": dict(
        level="other", module="Rsdns.Props.C20",
        technique="counting global allocator armed around every call of the allocation-free API on the real code + Lean-checked allocation-site accounting regenerated from the source",
        level_text="Every call of the advertised allocation-free API (header, questions, InlineName record headers, markers, A/AAAA "
                   "data, raw data, skips, seeks, counts, random access, NameRef labels/eq, MessageIterator with A/AAAA records) is "
                   "executed with a counting allocator armed, on valid, mutated and random messages, error paths included; a heap "
                   "`Name` read serves as positive control of the meter. The Lean side proves that no function reachable from these "
                   "entry points (hand-written call graph) contains an allocating construct in the inventory the translator "
                   "re-extracts from the Rust source on every run.",
        level_note="`other`: allocation is a property of the compiled program; the theorem is about a syntactic inventory, the "
                   "measurement is exact but sampled. Trusted: the call graph in Model/Alloc.lean, the construct list in tools/extract.py.",
        streams=[dict(name="noalloc")],
        explanation="C20: alloc_free_subset, errors_carry_no_heap_data, allocating_paths_are_seen; stream `noalloc` (+ `noalloci`).",
    ),
    "C19": dict(
        level="other", module="Rsdns.Props.C19",
        technique="exhaustive compiler check (cargo check of Send/Sync assertions over all four clients, all query methods, all 17 record types) tied to a Lean auto-trait model over struct shapes extracted from the source",
        level_text="The decision is rustc's: harness/typecheck type-checks iff Client is Send+Sync for the four clients and the futures of "
                   "Client::new, query_raw and query_rrset::<D> (17 concrete D and generically in D: RData, non-'static borrows, plus Send+'static spawnable blocks; checked with default features and with rsdns' optional socket2 feature, which adds a field to ClientConfig) are Send. "
                   "The Lean side applies the structural Send/Sync rules to the field lists of ClientImpl / ClientCtx / Client / ClientConfig (feature-gated fields included, type aliases resolved) that the "
                   "translator extracts on every run; an unknown field type fails the theorem rather than defaulting.",
        level_note="`other`: auto traits of compiler-generated async state machines are outside any model we can tie to this code; the "
                   "Lean theorem is thin by design, the assurance is the compiler's and is exhaustive (a type-level fact, not sampled).",
        streams=[], special=[typecheck_special],
        explanation="C19: std_client_send_sync, async_client_send_sync, async_query_futures_send, ctx_send + cargo check of harness/typecheck.",
        rule="the finite set of Send/Sync assertions in harness/typecheck/src/lib.rs is checked exhaustively by rustc; non-trivial = every assertion",
    ),
    "C08": dict(
        level="proof", module="Rsdns.Props.C08", modules=["Rsdns.Props.C08", "Rsdns.Props.C08Views", "Rsdns.Props.PinNames"],
        technique="Lean 4 simulation proof between the cursor-style reader and the iterator API on arbitrary bytes (iter_agrees_with_pass) + theorems (NameRef::eq = equality of the decoded names, same-offset shortcut included; Name/InlineName readers are the same function; skip succeeds wherever read does, at the same position) + cross-view agreement oracle on the real code",
        level_text="Proved for all inputs: NameRef::eq on two names of one message — including its same-offset shortcut, whose soundness "
                   "rests on the uniqueness of the RFC expansion at a position — answers exactly what == answers on the decoded names "
                   "whenever both decode (nameref_eq_decoded); read_domain_name::<Name> = read_domain_name::<InlineName>; wherever an "
                   "owned name is read, skipping it succeeds and resumes at the same position. On the implementation, every message is pushed through six "
                   "views (markers, borrowed names, owned names of both types, random access, iterator) and an oracle checks pairwise "
                   "agreement and monotonicity; every pair of names inside a message is compared by NameRef::eq/ne against equality of "
                   "the decoded names.",
        level_note="Props/C08Views.lean, iter_agrees_with_pass: for ANY byte string, whenever one linear pass with the cursor-style reader "
                   "(owned names, the data call that fits each record's type) runs to the end, MessageIterator::new succeeds with the "
                   "same header, questions() yields the same questions and records() yields exactly iterView of the same records "
                   "(OPT / undefined class or type passed over, everything else identical and in order; a defined code without a data "
                   "type is UnexpectedType) — by a simulation (record_sim, drain_sim, questions_sim; Lemmas/Views.lean). Markers vs "
                   "borrowed vs owned headers and skip vs raw vs typed data positions: C09.pair_follows_pass; typed random access: "
                   "C10.at_closed_form. Comparison involving MessageReader views is limited to ≤ 65535 bytes (MessageReader::new refuses more).",
        streams=[dict(name="views"), dict(name="nameeq", impl_oracle=nameeq_oracle), dict(name="names", quick=20000),
                 dict(name="truth", quick=6000),
                 dict(name="reader", quick=8000, impl_oracle=purity_oracle), dict(name="readerx", quick=8000, impl_oracle=purity_oracle)],
        explanation="C08: iter_agrees_with_pass, data_eq_dataAt, dataBytes_eq_dataBytesAt (Props/C08Views.lean), nameref_eq_decoded, nameRefEqLoop_spec, eqLabels_iff_nameEq, read_kinds_agree, skip_of_read, walk_congr_mode; streams `views` and `nameeq`.",
    ),
    "C10": dict(
        level="proof", module="Rsdns.Props.C10", modules=["Rsdns.Props.C10", "Rsdns.Props.PinCursor"],
        technique="Lean 4 invariant proof over all call histories (full view = whole message) + purity oracle against a fresh reader",
        level_text="Invariant by induction over arbitrary call histories: the reader cursor's full view is the whole message, hence "
                   "record_data_at / record_data_bytes_at / name_ref_at equal the decoder run on a fresh cursor — also in the error "
                   "state with a window left open. Harness oracle: every *_at result is compared with a fresh reader's.",
        level_note="Trusted: Lean kernel; model of MessageReader (validated by `reader` correspondence); the purity oracle is "
                   "independent of the model.",
        streams=[dict(name="reader", impl_oracle=purity_oracle), dict(name="readerx", quick=10000, impl_oracle=purity_oracle)],
        explanation="C10: at_closed_form / at_pure theorems over Reach; oracle `IMPURE!` in the harness.",
    ),
    "C17": dict(
        level="proof", module="Rsdns.Props.C17", modules=["Rsdns.Props.C17", "Rsdns.Props.PinCursor"],
        technique="Lean 4 theorems (no UB for arbitrary call histories with arbitrary markers; cursor primitives from any position) + checked-build / guard-page oracles",
        level_text="No protocol hypothesis: every list of public MessageReader calls with arbitrary markers is free of the model's `ub` "
                   "outcome (an unchecked access whose precondition fails); cursor primitives, name readers, NameRef::eq across two "
                   "messages and read_rr_data are safe from any position. Implementation-side: checked build (std unsafe-precondition "
                   "checks abort), guard pages, returned-slice range check.",
        level_note="Also: name_cmp_no_ub (Ord::cmp of both name types with its two get_unchecked(i) modelled as possible `ub`: never out of "
                   "range, for any two byte strings), parse_no_ub (text parsers), and Props/PinCursor.lean (the seven bounds tests of "
                   "cursor.rs/macros.rs regenerated from the source equal the model's). "
                   "Panics at documented debug assertions and checked counter arithmetic are allowed by this property and by the "
                   "theorem (`noUB`). Trusted: Lean kernel; model of every unchecked site in cursor.rs/macros.rs/utils.rs.",
        streams=[dict(name="readerx"), dict(name="xmark"), dict(name="reader", quick=8000, impl_oracle=reader_oracle),
                 dict(name="rdata", quick=10000), dict(name="nameeq", quick=6000),
                 dict(name="query", quick=10000, impl_oracle=query_oracle), dict(name="cmp", quick=10000),
                 # the clients lend out a `Vec` whose length was forced with `set_len`: what is parsed must be
                 # the received bytes only, never the uninitialised or stale tail
                 dict(name="c16")],
        explanation="C17: api_no_ub and companions; `readerx` = arbitrary call orders with stale markers; the write side "
                    "(the unchecked stores of the query encoder, reached from every client's query calls) is C11.writer_safe "
                    "with the `query` stream on tight buffers.",
    ),
    "C03": dict(
        level="proof", module="Rsdns.Props.C03", modules=["Rsdns.Props.C03", "Rsdns.Props.PinLabels"],
        technique="Lean 4 theorems (soundness vs RFC 1035 §4.1.4 expansion, rejection, completeness) + differential correspondence",
        level_text="Machine-checked theorems over the Lean model of labels_loop! for all messages, positions and pointer graphs "
                   "(no bound on sizes or hops beyond the code's own 32): soundness of read/skip/iterate against the RFC expansion "
                   "relation including the resume position, the four rejection theorems, completeness for backward-only layouts. "
                   "The model is tied to /repo by generated constants/masks and by the `name` correspondence stream.",
        level_note="Trusted: Lean kernel; axioms ⊆ {propext, Classical.choice, Quot.sound}; the hand-written model of "
                   "labels.rs/labels/macros.rs/cursor.rs (validated by correspondence on every run); tools/extract.py; harness.",
        streams=[dict(name="name"), dict(name="names", quick=15000),
                 # comparing two names in place follows the same pointers: its verdict must be the verdict on
                 # the two expanded label sequences (prefix-related names, shared suffixes, root)
                 dict(name="nameeq", quick=6000, thorough=200000, impl_oracle=nameeq_oracle)],
        explanation="Theorems: soundness of read/skip/iterate against the RFC 1035 §4.1.4 expansion relation incl. resume "
                    "position, the four rejection theorems, and completeness for backward-only (conforming) layouts; "
                    "correspondence: stream `name` through all four instantiations of labels_loop!.",
        assumptions=["hook verif_hooks::{read_domain_name, skip_domain_name, labels_at} only forwards to the crate-private functions"],
    ),
}
