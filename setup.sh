#!/bin/sh
# MANIFEST.setup_cmd: build the framework from files on disk only (offline).
set -e
cd "$(dirname "$0")"
export CARGO_NET_OFFLINE=true
python3 tools/extract.py >/dev/null
(cd lean && lake build Rsdns driver)
[ -f harness/Cargo.lock ] || cp /repo/Cargo.lock harness/Cargo.lock
(cd harness && cargo build --offline)
[ -f harness/typecheck/Cargo.lock ] || cp /repo/Cargo.lock harness/typecheck/Cargo.lock
(cd harness/typecheck && cargo check --offline)
echo "setup ok"
